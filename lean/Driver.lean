import Tuc.Model.CutStr
import Tuc.Model.FastLane
import Tuc.Model.Stream
import Tuc.Model.Lines
import Tuc.Model.Chars
import Tuc.Model.Args
import Tuc.Model.Faults
import Tuc.Model.Regex
import Tuc.Model.Argv
import Tuc.Model.Main
import Tuc.Spec.Record
import Tuc.Spec.Lines
import Tuc.Spec.Grammar
/-!
# Driver — line protocol front end of the executable model

Reads the same case lines as `/verif/harness` (`kind key=value ...`, byte strings hex-encoded)
and prints one result line per case: the model's result, a TAB, and the abstract
specification's result (`-` when the case kind has no specification).
-/
open Tuc

def hexVal (c : Char) : Nat :=
  if '0' ≤ c ∧ c ≤ '9' then c.toNat - 48
  else if 'a' ≤ c ∧ c ≤ 'f' then c.toNat - 87
  else if 'A' ≤ c ∧ c ≤ 'F' then c.toNat - 55
  else 0

def unhexL : List Char → List UInt8
  | a :: b :: t => UInt8.ofNat (hexVal a * 16 + hexVal b) :: unhexL t
  | _ => []

def unhex (s : String) : Bytes := unhexL s.toList

def hexDigit (n : Nat) : Char := if n < 10 then Char.ofNat (48 + n) else Char.ofNat (87 + n)

def hex (bs : Bytes) : String :=
  String.ofList (bs.flatMap fun b => [hexDigit (b.toNat / 16), hexDigit (b.toNat % 16)])

/-- decode UTF-8 bytes to chars (the case generator only sends valid UTF-8 for text fields) -/
def bytesToChars (bs : Bytes) : List Char :=
  (String.fromUTF8? (ByteArray.mk bs.toArray)).map (·.toList) |>.getD []

abbrev Kv := List (String × String)

def Kv.get? (kv : Kv) (k : String) : Option String := (kv.find? (·.1 == k)).map (·.2)
def Kv.flag (kv : Kv) (k : String) : Bool := kv.get? k == some "1"
def Kv.optBytes (kv : Kv) (k : String) : Option Bytes :=
  match kv.get? k with
  | none => none
  | some "-" => none
  | some v => some (unhex v)
def Kv.optNat (kv : Kv) (k : String) : Option Nat :=
  match kv.get? k with
  | none => none
  | some "-" => none
  | some v => v.toNat?

def parseKv (toks : List String) : Kv :=
  toks.filterMap fun t =>
    match t.splitOn "=" with
    | k :: v :: rest => some (k, String.intercalate "=" (v :: rest))
    | _ => none

def sideStr : Side → String
  | .some v => toString v
  | .cont => "_"

def parseSideTok (s : String) : Side :=
  if s == "_" then .cont else .some (s.toInt?.getD 0)

def renderUb (b : UserBounds) : String :=
  s!"B({sideStr b.l},{sideStr b.r},{if b.isLast then 1 else 0},{match b.fallback with | some f => "=" ++ hex f | none => "-"})"

def renderList (l : List BoF) : String :=
  String.intercalate ";" (l.map fun
    | .bound b => renderUb b
    | .filler f => s!"F({hex f})")

def renderUbl (l : UserBoundsList) : String :=
  s!"L={sideStr l.lastInteresting}|{renderList l.list}"

def stripSuffixParen (s : String) : String :=
  if s.endsWith ")" then (s.dropEnd 1).toString else s

def parseStructured (s : String) : List BoF :=
  (s.splitOn ";").filterMap fun item =>
    if item.isEmpty then none
    else if item.startsWith "F(" then
      some (.filler (unhex (stripSuffixParen (item.drop 2).toString)))
    else if item.startsWith "B(" then
      let body := stripSuffixParen (item.drop 2).toString
      match body.splitOn "," with
      | l :: r :: rest =>
        let fb := match rest with
          | f :: _ => if f.startsWith "=" then some (unhex (f.drop 1).toString) else none
          | [] => none
        some (.bound { l := parseSideTok l, r := parseSideTok r, isLast := false, fallback := fb })
      | _ => none
    else none

def statusStr : Status → String
  | .ok => "ok" | .fail => "fail" | .panic => "panic" | .hang => "hang"

def renderRun (r : Run) : String := s!"{statusStr r.status} {hex r.out}"

def buildBounds (kv : Kv) : Except String UserBoundsList :=
  match kv.get? "bv" with
  | some bv =>
    match fromVec (parseStructured bv) with
    | .ok l => .ok l
    | .fail => .error "fail"
    | .panic => .error "panic"
  | none =>
    let text := bytesToChars (unhex ((kv.get? "b").getD "313a"))
    match boundsListOfString text with
    | .ok l => .ok l
    | .fail => .error "badbounds"
    | .panic => .error "panic"

def buildOpt (kv : Kv) : Except String Opt := do
  let bounds ← buildBounds kv
  let bt : BoundsType := match kv.get? "bt" with
    | some "c" => .characters | some "b" => .bytes | some "l" => .lines | _ => .fields
  let bag : Option RegexBag ←
    if bt = .characters then pure (some charsBag)
    else match kv.optBytes "re" with
      | none => pure none
      | some reText =>
        match Re.parse (bytesToChars reText) with
        | some r => if (Re.run 1 r [] some).isSome then throw "unmodelled" else pure (some r.bag)
        | none => throw "unmodelled"
  let trim : Option Trim := match kv.get? "t" with
    | some "l" => some .left | some "r" => some .right | some "b" => some .both | _ => none
  pure {
    delimiter := (kv.optBytes "d").getD [9]
    eol := if kv.flag "z" then .zero else .newline
    bounds := bounds
    boundsType := bt
    onlyDelimited := kv.flag "s"
    greedyDelimiter := kv.flag "g"
    compressDelimiter := kv.flag "p"
    replaceDelimiter := kv.optBytes "r"
    trim := trim
    complement := kv.flag "m"
    join := kv.flag "j"
    json := kv.flag "json"
    fallbackOob := kv.optBytes "fb"
    regexBag := bag }

def parseRanges (s : String) : List Range :=
  (s.splitOn ",").filterMap fun x =>
    match x.splitOn ":" with
    | [a, b] => match a.toNat?, b.toNat? with
      | some a, some b => some ⟨a, b⟩
      | _, _ => none
    | _ => none

def splitSegsFuel : Nat → Bytes → List Nat → List Bytes
  | 0, input, _ => if input.isEmpty then [] else [input]
  | _, [], _ => []
  | _, input, [] => [input]
  | fuel + 1, input, l :: ls =>
    let l := max l 1
    input.take l :: splitSegsFuel fuel (input.drop l) ls

def splitSegs (input : Bytes) (lens : List Nat) : List Bytes :=
  splitSegsFuel (input.length + 1) input lens

def parseNats (s : String) : List Nat := (s.splitOn ",").filterMap String.toNat?

def runCut (kv : Kv) : String :=
  match buildOpt kv with
  | .error e => e
  | .ok opt =>
    let input := (kv.optBytes "in").getD []
    if opt.boundsType = .characters && !validUtf8 input then "unmodelled"
    else if ((kv.optNat "wf").isSome || (kv.optNat "rf").isSome) then
      -- faults are modelled at the level of `main`'s dispatch only
      if (kv.get? "eng").getD "str" != "auto" then "unmodelled"
      else
        let lens := parseNats ((kv.get? "seg").getD "")
        match kv.optNat "rf" with
        | some k =>
          match dispatchReadFault opt (kv.flag "M") (splitSegs (input.take k) lens) with
          | some r => renderRun (deliver r (kv.optNat "wf"))
          | none => "reject"
        | none =>
          match dispatch opt (kv.flag "M") (splitSegs input lens) with
          | some r => renderRun (deliver r (kv.optNat "wf"))
          | none => "reject"
    else
    match (kv.get? "eng").getD "str" with
    | "str" => renderRun (readAndCutStr opt input)
    | "fast" =>
      match fastOptOf opt with
      | some fo => renderRun (readAndCutFast fo input)
      | none => "inapplicable"
    | "stream" =>
      match streamOptOf opt with
      | some so => renderRun (cutBytesStream so (splitSegs input (parseNats ((kv.get? "seg").getD ""))))
      | none => "inapplicable"
    | "auto" =>
      if kv.flag "M" then
        match streamOptOf opt with
        | some so => renderRun (cutBytesStream so (splitSegs input (parseNats ((kv.get? "seg").getD ""))))
        | none => "reject"
      else if opt.boundsType = .bytes then renderRun (readAndCutBytes opt input)
      else if opt.boundsType = .lines then renderRun (readAndCutLines opt input)
      else match fastOptOf opt with
        | some fo => renderRun (readAndCutFast fo input)
        | none => renderRun (readAndCutStr opt input)
    | "lines" => renderRun (readAndCutLines opt input)
    | "bytes" => renderRun (readAndCutBytes opt input)
    | "cutstr" =>
      let fields := parseRanges ((kv.get? "sf").getD "")
      let buf := (kv.optBytes "sb").getD []
      renderRun (cutStr input opt fields buf [opt.eol.byte]).1
    | _ => "unmodelled"

def runSpec (kv : Kv) : String :=
  match buildOpt kv with
  | .error _ => "-"
  | .ok opt =>
    let input := (kv.optBytes "in").getD []
    if opt.regexBag.isSome && opt.boundsType != .characters then "-"
    else if (kv.get? "wf").isSome && kv.get? "wf" != some "-" then "-"
    else if (kv.get? "rf").isSome && kv.get? "rf" != some "-" then "-"
    else
    match (kv.get? "eng").getD "str" with
    | "str" | "fast" | "stream" | "auto" =>
      if opt.boundsType = .lines then renderRun (Spec.specLines (Spec.cfgOf opt) input)
      else if opt.boundsType = .bytes then renderRun (Spec.specBytes (Spec.cfgOf opt) input)
      else renderRun (Spec.specRun (Spec.cfgOf opt) input)
    | "cutstr" => renderRun (Spec.specRecord (Spec.cfgOf opt) input)
    | "lines" => renderRun (Spec.specLines (Spec.cfgOf opt) input)
    | "bytes" => renderRun (Spec.specBytes (Spec.cfgOf opt) input)
    | _ => "-"

def widthOf (s : Option String) : Width :=
  match s with
  | some "one" => .one
  | some "other" => .other
  | _ => .absent

def flagsOfKv (kv : Kv) : Flags :=
  { mode := match kv.get? "mode" with
      | some "f" => .f | some "c" => .c | some "b" => .b | some "l" => .l | _ => .dflt
    d := widthOf (kv.get? "d")
    e := kv.flag "e", g := kv.flag "g", p := kv.flag "p", s := kv.flag "s", z := kv.flag "z"
    m := kv.flag "m", j := kv.flag "j", noJoin := kv.flag "nj", json := kv.flag "json"
    r := widthOf (kv.get? "r"), t := kv.flag "t", fallback := kv.flag "fb"
    mem := match kv.get? "M" with | some "zero" => .zero | some "pos" => .pos | _ => .absent
    fmt := kv.flag "fmt", fwd := kv.flag "fwd", extra := kv.flag "extra" }

def renderDecision : Decision → String
  | .reject => "reject"
  | .failFirst => "failFirst"
  | .accept e j =>
    let es := match e with
      | .stream => "stream" | .bytes => "bytes" | .lines => "lines" | .fast => "fast" | .general => "general"
    s!"accept {es} {if j then 1 else 0}"

def ubFromKv (kv : Kv) : UserBounds :=
  { l := parseSideTok ((kv.get? "l").getD "_"), r := parseSideTok ((kv.get? "r").getD "_"),
    isLast := false, fallback := kv.optBytes "fb" }

/-- regexes outside the modelled family that the real engine is known to accept (the generator of
    `tool/argv_diff.py` draws from the same list) -/
def knownValidRegexes : List String := ["\\b|\\B", "[0-9]", "a*", ".", "\\s+", "\\d", "x?", "[a-c]+", "a**"]

/-- regexes the real engine is known to refuse (the generator draws from the same list) -/
def knownInvalidRegexes : List String := ["(", "[a", ")", "*a", "a)", "(a", "[", "\\", "a{2,1}", "+", "a\\"]

/-- `regexOk` of `parseArgv`: the text is in the modelled family (every member is a valid regex)
    or in the known-valid list.  A text that is in neither list and outside the family is
    `unknown`: `unknownOk` says how to count it. -/
def driverRegexOk (unknownOk : Bool) (t : List Char) : Bool :=
  -- (`Re.parse` takes a lone trailing backslash for a literal; the real engine refuses it)
  if knownInvalidRegexes.contains (String.ofList t) then false
  else if ((Re.parse t).isSome && (t.reverse.takeWhile (· = '\\')).length % 2 = 0)
    || knownValidRegexes.contains (String.ofList t) then true
  else unknownOk

/-- `Tuc.Model.Main.tucMain` (argv → `parseArgv` → regex bag → `dispatch`) with one 64 KiB segment,
    rendered -/
def runArgvWith (unknownOk : Bool) (argv : List (List Char)) (input : Bytes) : String :=
  match tucMain (driverRegexOk unknownOk) argv (splitSegs input [65536]) with
  | .help => "help"
  | .version => "version"
  | .reject => "reject"
  | .panic => "panic"
  | .unmodelled => "unmodelled"
  | .run r => renderRun r

/-- `argv a=<hex>,<hex>,… in=<hex>`: `parseArgv`, then `main`'s dispatch with one 64 KiB segment.
    When the outcome depends on the validity of a regex text the driver knows nothing about, the
    case is `unmodelled`. -/
def runArgv (kv : Kv) : String :=
  let a := (kv.get? "a").getD ""
  let argv : List (List Char) := if a.isEmpty then [] else (a.splitOn ",").map fun h => bytesToChars (unhex h)
  let input := (kv.optBytes "in").getD []
  let r1 := runArgvWith true argv input
  let r2 := runArgvWith false argv input
  if r1 == r2 then r1 else "unmodelled"

def runCase (line : String) : String :=
  match (line.trimAscii.toString.splitOn " ").filter (· ≠ "") with
  | [] => "badcase"
  | kind :: toks =>
    let kv := parseKv toks
    match kind with
    | "parse" =>
      let text := bytesToChars (unhex ((kv.get? "s").getD ""))
      match boundsListOfString text with
      | .ok l => s!"ok {renderUbl l} fwd={if isForwardOnly l.list then 1 else 0}"
      | .fail => "fail"
      | .panic => "panic"
    | "range" =>
      match (ubFromKv kv).tryIntoRange ((kv.optNat "n").getD 0) with
      | some (s, e) => s!"ok {s} {e}"
      | none => "fail"
    | "matches" =>
      match (ubFromKv kv).matches (((kv.get? "idx").bind String.toInt?).getD 1) with
      | some b => s!"ok {if b then 1 else 0}"
      | none => "fail"
    | "unpack" =>
      "ok " ++ String.intercalate ";" (((ubFromKv kv).unpack ((kv.optNat "n").getD 0)).map renderUb)
    | "complement" =>
      match (ubFromKv kv).complement ((kv.optNat "n").getD 0) with
      | some l => "ok " ++ String.intercalate ";" (l.map renderUb)
      | none => "fail"
    | "lunpack" | "lcomplement" =>
      match buildBounds kv with
      | .error e => e
      | .ok l =>
        let n := (kv.optNat "n").getD 0
        match (if kind == "lunpack" then unpackList l.list n else complementList l.list n) with
        | .ok r => s!"ok {renderUbl r}"
        | .fail => "fail"
        | .panic => "panic"
    | "cut" => runCut kv
    | "argv" => runArgv kv
    | "decide" => renderDecision (decision (flagsOfKv kv))
    | "rematch" =>
      match Re.parse (bytesToChars (unhex ((kv.get? "re").getD ""))) with
      | some r =>
        if (Re.run 1 r [] some).isSome then "unmodelled"
        else
          let inp := (kv.optBytes "in").getD []
          let f := fun (ms : List (Nat × Nat)) => String.intercalate "," (ms.map fun (a, b) => s!"{a}:{b}")
          s!"ok n={f (r.bag.normal inp)} g={f (r.bag.greedy inp)}"
      | none => "unmodelled"
    | _ => "badcase"

partial def loop (i o : IO.FS.Stream) : IO Unit := do
  let line ← i.getLine
  if line.isEmpty then return ()
  let kind := (line.trimAscii.toString.splitOn " ").headD ""
  let kvs := parseKv ((line.trimAscii.toString.splitOn " ").filter (· ≠ "")).tail
  let spec := if kind == "cut" then runSpec kvs
    else if kind == "parse" then
      match Spec.specParse (bytesToChars (unhex ((kvs.get? "s").getD ""))) with
      | some l => "ok " ++ renderList l
      | none => "fail"
    else "-"
  o.putStrLn (runCase line ++ "\t" ++ spec)
  o.flush
  loop i o

def main : IO Unit := do
  let i ← IO.getStdin
  let o ← IO.getStdout
  loop i o
