import Tuc.Model.Basic
import Tuc.Model.Bounds
import Tuc.Model.Text
import Tuc.Model.Utf8
import Tuc.Model.Options
import Tuc.Model.CutStr
import Tuc.Model.FastLane
