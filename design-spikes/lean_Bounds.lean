namespace Spike

inductive Side where
  | some (v : Int)
  | cont
deriving DecidableEq, Repr

inductive RangeErr where
  | oob (v : Int)
  | leftGtRight
deriving DecidableEq, Repr

/-- Model of `UserBounds::try_into_range` (src/bounds/userbounds.rs:215). -/
def tryIntoRange (l r : Side) (n : Nat) : Except RangeErr (Nat × Nat) :=
  let pl : Int := n
  let start : Except RangeErr Int := match l with
    | .cont => .ok 0
    | .some v => if v > pl ∨ v < -pl then .error (.oob v) else if v < 0 then .ok (pl + v) else .ok (v - 1)
  match start with
  | .error e => .error e
  | .ok s =>
    let stop : Except RangeErr Int := match r with
      | .cont => .ok pl
      | .some v => if v > pl ∨ v < -pl then .error (.oob v) else if v < 0 then .ok (pl + v + 1) else .ok v
    match stop with
    | .error e => .error e
    | .ok e => if e ≤ s then .error .leftGtRight else .ok (s.toNat, e.toNat)

/-- mirror an index: -k ↦ n+1-k -/
def mirror (n : Nat) : Side → Side
  | .some v => if v < 0 then .some (n + 1 + v) else .some v
  | .cont => .cont

theorem mirror_left (l r : Side) (n : Nat) (hl : ∀ v, l = .some v → v < 0 → -(n:Int) ≤ v) :
    tryIntoRange (mirror n l) r n = tryIntoRange l r n := by
  cases l with
  | cont => rfl
  | some v =>
    by_cases hv : v < 0
    · have := hl v rfl hv
      simp only [mirror, hv, if_true, tryIntoRange]
      have h1 : ¬ ((n:Int) + 1 + v > n ∨ (n:Int) + 1 + v < -n) := by omega
      have h2 : ¬ (v > (n:Int) ∨ v < -(n:Int)) := by omega
      have h3 : ¬ ((n:Int) + 1 + v < 0) := by omega
      simp only [h1, h2, h3, hv, if_true, if_false]
      have : (n:Int) + 1 + v - 1 = n + v := by omega
      rw [this]
    · simp [mirror, hv]

end Spike
