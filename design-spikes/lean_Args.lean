namespace Spike

inductive Mode where | f | c | b | l | dflt
deriving DecidableEq, Repr

inductive RKind where | none | one | multi
deriving DecidableEq, Repr

inductive MKind where | none | zero | pos
deriving DecidableEq, Repr

structure Flags where
  mode : Mode
  hasD : Bool
  dMulti : Bool      -- -d value wider than one byte (meaningful only with hasD)
  hasE : Bool
  g : Bool
  p : Bool
  s : Bool
  z : Bool
  m : Bool
  j : Bool
  noJoin : Bool
  json : Bool
  r : RKind
  t : Bool
  fb : Bool
  M : MKind
  fmt : Bool         -- bounds contain format text
  asc : Bool         -- bounds strictly ascending, positive (forward-only, non repeated)
deriving DecidableEq, Repr

inductive Decision where
  | reject
  | failFirst
  | accept (join : Bool)
deriving DecidableEq, Repr

def isFields (f : Flags) : Bool := f.mode = .f || f.mode = .dflt

/-- model of parse_args + main dispatch (src/bin/tuc.rs) -/
def decision (f : Flags) : Decision :=
  if f.M = .zero then .reject else
  if f.j && f.noJoin then .reject else
  if f.json && f.noJoin then .reject else
  if f.r ≠ .none && f.noJoin then .reject else
  if f.r ≠ .none && f.json then .reject else
  if f.mode = .c && f.noJoin then .reject else
  if f.json && !(f.mode = .c || isFields f) then .reject else
  if f.json && f.fmt then .reject else
  if f.hasD && !isFields f then .reject else
  if f.hasE && f.mode = .c then .reject else
  let replSome := f.r ≠ .none || f.mode = .c || f.json
  let join := f.j || f.json || replSome || (f.mode = .l && !f.noJoin) || f.mode = .c
  let regex := f.hasE || f.mode = .c
  if f.M = .pos then
    if !isFields f then .reject else
    if f.hasD && f.dMulti then .reject else
    if f.m || f.g || f.p || f.json || f.r = .multi || f.t || regex || f.s then .reject else
    if !f.asc then .reject else .accept join
  else
    if f.mode = .b then .accept join else
    if f.hasE && isFields f && ((f.p && !replSome) || (join && !replSome)) then .failFirst else
    .accept join

/-- the statement of C19, as a predicate on the option set -/
def conflict (f : Flags) : Bool :=
  (f.j && f.noJoin) ||
  (f.noJoin && (f.json || f.r ≠ .none || f.mode = .c)) ||
  (f.r ≠ .none && f.json) ||
  (f.json && (f.mode = .b || f.mode = .l || f.fmt)) ||
  f.M = .zero ||
  (f.M = .pos && ((f.hasD && f.dMulti) || f.r = .multi || !f.asc || f.g || f.p || f.m || f.t || f.s || f.hasE
      || f.json || f.mode = .c || f.mode = .b || f.mode = .l)) ||
  (f.hasD && !isFields f) ||
  (f.hasE && f.mode = .c)

theorem decision_reject_iff (f : Flags) : decision f = .reject ↔ conflict f = true := by
  rcases f with ⟨mode, hasD, dMulti, hasE, g, p, s, z, m, j, noJoin, json, r, t, fb, M, fmt, asc⟩
  cases M <;> cases mode <;> cases r <;> simp [decision, conflict, isFields] <;> grind

end Spike
