use std::convert::TryFrom;
use std::io::{BufRead, Read};
use std::str::FromStr;
use tuc::bounds::{BoundOrFiller, BoundsType, Side, UserBoundsList, UserBoundsTrait};
use tuc::cut_str::read_and_cut_str;
use tuc::options::{Opt, EOL};
use tuc::stream::{read_and_cut_bytes_stream, StreamOpt};

struct SegReader {
    segs: Vec<Vec<u8>>,
    i: usize,
    off: usize,
}
impl Read for SegReader {
    fn read(&mut self, buf: &mut [u8]) -> std::io::Result<usize> {
        let b = self.fill_buf()?;
        let n = b.len().min(buf.len());
        buf[..n].copy_from_slice(&b[..n]);
        self.consume(n);
        Ok(n)
    }
}
impl BufRead for SegReader {
    fn fill_buf(&mut self) -> std::io::Result<&[u8]> {
        while self.i < self.segs.len() && self.off >= self.segs[self.i].len() {
            self.i += 1;
            self.off = 0;
        }
        if self.i >= self.segs.len() {
            return Ok(&[]);
        }
        Ok(&self.segs[self.i][self.off..])
    }
    fn consume(&mut self, amt: usize) {
        self.off += amt;
    }
}

fn mk_opt(bounds: &str, join: bool, repl: Option<u8>, fb: Option<&str>) -> Opt {
    Opt {
        delimiter: b"-".to_vec(),
        bounds: UserBoundsList::from_str(bounds).unwrap(),
        bounds_type: BoundsType::Fields,
        join: join || repl.is_some(),
        replace_delimiter: repl.map(|x| vec![x]),
        fallback_oob: fb.map(|x| x.as_bytes().to_vec()),
        eol: EOL::Newline,
        ..Opt::default()
    }
}

fn admissible(input: &[u8], opt: &Opt) -> bool {
    // every record: each bound wholly present or wholly absent
    let mut recs: Vec<&[u8]> = input.split(|&c| c == b'\n').collect();
    if input.ends_with(b"\n") || input.is_empty() {
        recs.pop();
    }
    for r in recs {
        if r.is_empty() {
            continue;
        }
        let n = r.iter().filter(|&&c| c == b'-').count() as i32 + 1;
        for bof in opt.bounds.iter() {
            if let BoundOrFiller::Bound(b) = bof {
                let l = match b.l { Side::Some(v) => v, Side::Continue => 1 };
                if let Side::Some(rr) = b.r {
                    if l <= n && n < rr {
                        return false;
                    }
                }
            }
        }
    }
    true
}

fn run_ref(input: &[u8], opt: Opt) -> (Vec<u8>, bool) {
    let mut out = Vec::new();
    let mut rdr = std::io::BufReader::new(input);
    let ok = read_and_cut_str(&mut rdr, &mut out, opt).is_ok();
    (out, ok)
}

fn run_stream(segs: Vec<Vec<u8>>, opt: &Opt) -> (Vec<u8>, bool) {
    let sopt = StreamOpt::try_from(opt).unwrap();
    let mut out = Vec::new();
    let mut rdr = SegReader { segs, i: 0, off: 0 };
    let ok = read_and_cut_bytes_stream(&mut rdr, &mut out, &sopt).is_ok();
    (out, ok)
}

#[test]
fn diff_all() {
    let alphabet = [b'a', b'b', b'-', b'\n'];
    let bounds = [
        "1", "2", "3", "1,2", "1,3", "2,3", "1:2", "2:3", "1:", "2:", "3:", ":2", "1:2,3", "1,2:3", "1,3:", "2,4:",
        "x{1}y", "{2}z", "{1}x{2}", "{1:}x", "p{2:}q", "{1=F}", "{2=F}", "{3=F}x", "{1}{3=G}", "a{1}b{2=F}c{3:}d", "2=F,3=G",
        "{2:3=R}w", "1,3:=Z",
    ];
    let mut cases = 0u64;
    let mut fails = 0u64;
    for len in 0..=6usize {
        let total = 4usize.pow(len as u32);
        for code in 0..total {
            let mut input = Vec::with_capacity(len);
            let mut c = code;
            for _ in 0..len {
                input.push(alphabet[c % 4]);
                c /= 4;
            }
            for b in bounds.iter() {
                for &(join, repl) in &[(false, None), (true, None), (true, Some(b'/'))] {
                    for fb in [None, Some("~")] {
                        let opt = mk_opt(b, join, repl, fb);
                        if !admissible(&input, &opt) {
                            continue;
                        }
                        let (rout, rok) = run_ref(&input, mk_opt(b, join, repl, fb));
                        // all segmentations
                        let nseg = if len == 0 { 1 } else { 1usize << (len - 1) };
                        for mask in 0..nseg {
                            let mut segs: Vec<Vec<u8>> = Vec::new();
                            let mut cur = Vec::new();
                            for (i, &ch) in input.iter().enumerate() {
                                cur.push(ch);
                                if i + 1 < len && (mask >> i) & 1 == 1 {
                                    segs.push(std::mem::take(&mut cur));
                                }
                            }
                            if !cur.is_empty() {
                                segs.push(cur);
                            }
                            cases += 1;
                            let (sout, sok) = run_stream(segs.clone(), &opt);
                            // on failure compare only status + that stream output of complete earlier records is prefix
                            let same = if rok { sok && sout == rout } else { !sok };
                            if !same {
                                fails += 1;
                                if fails <= 40 {
                                    eprintln!(
                                        "MISMATCH input={:?} bounds={} join={} repl={:?} fb={:?} segs={:?}\n   ref=({:?},{}) stream=({:?},{})",
                                        String::from_utf8_lossy(&input), b, join, repl, fb,
                                        segs.iter().map(|s| String::from_utf8_lossy(s).to_string()).collect::<Vec<_>>(),
                                        String::from_utf8_lossy(&rout), rok, String::from_utf8_lossy(&sout), sok
                                    );
                                }
                            }
                        }
                    }
                }
            }
        }
    }
    eprintln!("cases={} fails={}", cases, fails);
    assert_eq!(fails, 0);
}
