import itertools, subprocess, sys
from concurrent.futures import ThreadPoolExecutor
from oracle_c01 import spec_run
R='/tmp/tucrel/release/tuc'
I32MIN,I32MAX=-2**31,2**31-1
def parse_int(s):
    if s=='' : return 'open'
    t=s[1:] if s[0] in '+-' else s
    if t=='' or not all(c in '0123456789' for c in t): return None
    v=int(s)
    if v<I32MIN or v>I32MAX: return None
    return v
def spec_bound(s):
    fb=None
    if '=' in s:
        s,fb=s.split('=',1)
    if s=='' : return None
    if ':' in s:
        i=s.index(':'); L,Rr=s[:i],s[i+1:]
        if L=='' and Rr=='': return None
        l=parse_int(L); r=parse_int(Rr)
    else:
        l=parse_int(s); r=l
        if l=='open': return None
    if l is None or r is None: return None
    if l==0 or r==0: return None
    if l!='open' and r!='open' and l*r>0 and r<l: return None
    return ('b',None if l=='open' else l,None if r=='open' else r,None if fb is None else fb.encode())
def unescape(t): return t.replace('{{','{').replace('}}','}').replace('\\n','\n').replace('\\t','\t').encode()
def lex(s):
    toks=[];i=0
    while i<len(s):
        if s[i] in '{}' and i+1<len(s) and s[i+1]==s[i]: toks.append(('lit',s[i]*2)); i+=2
        elif s[i]=='{': toks.append(('open',)); i+=1
        elif s[i]=='}': toks.append(('close',)); i+=1
        else: toks.append(('lit',s[i])); i+=1
    return toks
def spec_parse(s):
    if s.strip()=='' : return None
    if '{' not in s and '}' not in s:
        out=[]
        for p in s.split(','):
            b=spec_bound(p)
            if b is None: return None
            out.append(b)
        return out
    out=[];inside=False;cur=''
    for t in lex(s):
        if t[0]=='lit': cur+=t[1]
        elif t[0]=='open':
            if inside: return None
            if cur: out.append(('f',unescape(cur)))
            cur='';inside=True
        else:
            if not inside: return None
            for p in cur.split(','):
                b=spec_bound(p)
                if b is None: return None
                out.append(b)
            cur='';inside=False
    if inside: return None
    if cur: out.append(('f',unescape(cur)))
    if not any(x[0]=='b' for x in out): return None
    return out
PROBE=b'p-q-r\n\nz\n'
def one(s):
    bofs=spec_parse(s)
    p=subprocess.run([R,'-d','-','--fallback-oob','~','-f',s],input=b'',capture_output=True)
    acc = p.returncode==0
    if p.returncode not in (0,1): return (s,'CRASH',p.returncode, bofs is not None)
    if acc != (bofs is not None): return (s,'ACC',acc,bofs)
    if acc:
        q=subprocess.run([R,'-d','-','--fallback-oob','~','-f',s],input=PROBE,capture_output=True)
        cfg=dict(d=b'-',eol=b'\n',g=0,p=0,s=0,j=0,t=None,r=None,fb=b'~',bofs=bofs)
        so,ok=spec_run(PROBE,cfg)
        if q.returncode!=0 or q.stdout!=so: return (s,'RENDER',q.returncode,q.stdout,so)
    return None
if __name__=='__main__':
    alpha=['1','2','0','-','+',':','=','{','}',',','\\','n','a',' ','é']
    maxlen=int(sys.argv[1])
    strs=[]
    for L in range(1,maxlen+1):
        for t in itertools.product(alpha,repeat=L): strs.append(''.join(t))
    bad=[]
    with ThreadPoolExecutor(16) as ex:
        for r in ex.map(one,strs):
            if r: bad.append(r)
    print('strings',len(strs),'bad',len(bad))
    from collections import Counter
    print(Counter(b[1] for b in bad))
    for b in bad[:60]: print(b)
