import random, subprocess, sys, re, os
from concurrent.futures import ThreadPoolExecutor
from collections import Counter
D='/repo/target/debug/tuc'
NUMS=['0','1','2','3','-1','-2','-3','9','-9','46341','65536','2147483647','-2147483648','2147483648','1073741824','+2','007']
def side(rng): return rng.choice(NUMS+['','',''])
def bound(rng):
    c=rng.random()
    if c<0.4: s=rng.choice(NUMS)
    else: s=side(rng)+':'+side(rng)
    if rng.random()<0.25: s+='='+rng.choice(['F','','a:b','}}','{{','é','-'])
    return s
def bounds(rng):
    if rng.random()<0.12: return rng.choice(['','{','}','{{','}}','{}','{1','1}','{1}}','{{1}','{1{2}','x{{y','=','=x',':','::','1::2','1,,2',',',' ','{ 1 }','{1,}','\\n','é','{1}é{2}','{é}','1=,2=','{1=}}}','{{{1}}}','{1}{1}','a{1}b{2:}c'])
    bs=[bound(rng) for _ in range(rng.randint(1,3))]
    if rng.random()<0.3:
        return ''.join(rng.choice(['','x','{{',' }}','\\n','\\t','é'])+'{'+b+'}' for b in bs)+rng.choice(['','z','}}','{{'])
    return ','.join(bs)
def argv(rng):
    a=[]
    m=rng.choice(['f','f','f','c','b','l','none'])
    if m!='none': a+=['-'+m,bounds(rng)]
    if rng.random()<0.5: a+=['-d',rng.choice(['-','--','','é','\t','ab','\n','-f'])]
    if rng.random()<0.15: a+=['-e',rng.choice(['-','[-,]','-+','(',')','','a*','\\b','^-','-$','é','[','a{99999999}','(?i)x','.'])]
    for fl in ['-g','-p','-s','-z','-m','-j','--no-join','--json']:
        if rng.random()<0.2: a.append(fl)
    if rng.random()<0.2: a+=['-r',rng.choice(['/','::','','$0','é','\n'])]
    if rng.random()<0.2: a+=['-t',rng.choice(['l','r','b','B','x',''])]
    if rng.random()<0.2: a+=[rng.choice(['--fallback-oob','--fallback-oob=']) ]+([rng.choice(['G','','-x'])] if rng.random()<0.7 else [])
    if rng.random()<0.15: a+=['-M',rng.choice(['1','0','-1','x','18014398509481984','99999999999999999999',''])]
    if rng.random()<0.03: a+=[rng.choice(['--whatever','-x','x','-'])]
    rng.shuffle  # keep key/value adjacency: no shuffle
    return a
ALPH=[b'a',b'-',b'-',b'\n',b'\0',b'\r',b'\xff',b'\x80',b'"',b'\\','é'.encode(),'😎'.encode(),b'\t',b',']
def stdin(rng): return b''.join(rng.choice(ALPH) for _ in range(rng.randint(0,14)))
def one(seed):
    rng=random.Random(seed); a=argv(rng); i=stdin(rng)
    try:
        p=subprocess.run([D]+a,input=i,capture_output=True,timeout=5,env={'RUST_BACKTRACE':'0'},
                         preexec_fn=lambda: __import__('resource').setrlimit(__import__('resource').RLIMIT_AS,(1<<30,1<<30)))
    except subprocess.TimeoutExpired:
        return ('HANG',a,i,'')
    if p.returncode in (0,1): return None
    m=re.search(rb'panicked at ([^\n]*)\n([^\n]*)',p.stderr)
    loc=(m.group(1).decode(errors='replace')+' | '+m.group(2).decode(errors='replace')[:80]) if m else p.stderr[:120].decode(errors='replace')
    return ('RC%d'%p.returncode,a,i,loc)
if __name__=='__main__':
    N=int(sys.argv[1])
    with ThreadPoolExecutor(16) as ex:
        bad=[r for r in ex.map(one,range(N)) if r]
    print('cases',N,'bad',len(bad))
    c=Counter((b[0],b[3]) for b in bad)
    ex={}
    for b in bad: ex.setdefault((b[0],b[3]),b)
    for k,v in c.most_common():
        print(v,k); print('     e.g.',ex[k][1],ex[k][2])
