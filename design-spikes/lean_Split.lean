/-! Spike: literal split by leftmost non-overlapping matches, as ranges (code-faithful)
    and as contents (spec), and the link between them. -/

namespace Spike
variable {α : Type} [DecidableEq α]

/-- leftmost occurrence of `d` in `l` (offset), like bstr `find`. -/
def find (d : List α) : List α → Option Nat
  | [] => if d = [] then some 0 else none
  | l@(_ :: t) => if d.isPrefixOf l then some 0 else (find d t).map (· + 1)

/-- spec-level split: contents of the fields. Fuel = length of the haystack. -/
def splitFuel (d : List α) : Nat → List α → List α → List (List α)
  | 0, cur, _ => [cur.reverse]
  | _, cur, [] => [cur.reverse]
  | n+1, cur, l@(c :: t) =>
    if d.isPrefixOf l then cur.reverse :: splitFuel d n [] (l.drop d.length)
    else splitFuel d n (c :: cur) t

def split (d l : List α) : List (List α) := splitFuel d (l.length + 1) [] l

#eval split [1,1] [0,1,1,1,2,1,1]   -- [[0],[1,2],[]]
#eval split [1] ([] : List Nat)
#eval find [1,1] [0,1,1,1,2,1,1]

/-- intercalate -/
def join (d : List α) : List (List α) → List α
  | [] => []
  | [x] => x
  | x :: xs => x ++ d ++ join d xs

-- spike
theorem join_splitFuel (d : List α) (hd : d ≠ []) :
    ∀ (n : Nat) (cur l : List α), l.length < n → join d (splitFuel d n cur l) = cur.reverse ++ l := by
  intro n
  induction n with
  | zero => intro cur l h; omega
  | succ n ih =>
    intro cur l h
    cases l with
    | nil => simp [splitFuel, join]
    | cons c t =>
      simp only [splitFuel]
      split
      · rename_i hp
        have hpre : d <+: (c :: t) := List.isPrefixOf_iff_prefix.mp hp
        obtain ⟨s, hs⟩ := hpre
        have hlen : ((c :: t).drop d.length).length < n := by
          have : 0 < d.length := List.length_pos_iff.mpr hd
          simp only [List.length_drop, List.length_cons] at *
          omega
        have hdrop : (c :: t).drop d.length = s := by
          rw [← hs]; simp
        have := ih [] ((c :: t).drop d.length) hlen
        cases hsp : splitFuel d n [] ((c :: t).drop d.length) with
        | nil => simp [hsp, join] at this ⊢; sorry
        | cons x xs => sorry
      · sorry

end Spike
