/-! Spike: literal split by leftmost non-overlapping matches, as ranges (code-faithful)
    and as contents (spec), and the link between them. -/

namespace Spike
variable {α : Type} [DecidableEq α]

/-- leftmost occurrence of `d` in `l` (offset), like bstr `find`. -/
def find (d : List α) : List α → Option Nat
  | [] => if d = [] then some 0 else none
  | l@(_ :: t) => if d.isPrefixOf l then some 0 else (find d t).map (· + 1)

/-- spec-level split: contents of the fields. Fuel = length of the haystack. -/
def splitFuel (d : List α) : Nat → List α → List α → List (List α)
  | 0, cur, _ => [cur.reverse]
  | _, cur, [] => [cur.reverse]
  | n+1, cur, l@(c :: t) =>
    if d.isPrefixOf l then cur.reverse :: splitFuel d n [] (l.drop d.length)
    else splitFuel d n (c :: cur) t

def split (d l : List α) : List (List α) := splitFuel d (l.length + 1) [] l

#eval split [1,1] [0,1,1,1,2,1,1]   -- [[0],[1,2],[]]
#eval split [1] ([] : List Nat)
#eval find [1,1] [0,1,1,1,2,1,1]

/-- intercalate -/
def join (d : List α) : List (List α) → List α
  | [] => []
  | [x] => x
  | x :: xs => x ++ d ++ join d xs

-- (an unfinished proof sketch of `join d (split d l) = l` was removed here; the real
-- lemma is `fields_reconstruct` in DESIGN.md §C01)

end Spike
