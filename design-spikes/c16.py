import re, random, subprocess, sys
from concurrent.futures import ThreadPoolExecutor
from oracle_c01 import resolve
R='/tmp/tucrel/release/tuc'
def gaps(line,rx):
    f=[];s=[];pos=0
    for m in rx.finditer(line):
        if m.end()==m.start(): continue
        f.append(line[pos:m.start()]); s.append(m.group(0)); pos=m.end()
    f.append(line[pos:]); return f,s
def spec_record(rec,cfg):
    n_rx=re.compile(cfg['re']); g_rx=re.compile(b'(?:'+cfg['re']+b')+')
    if cfg['t']:
        ms=[m for m in g_rx.finditer(rec)]
        a,b=0,len(rec)
        if cfg['t'] in 'lb' and ms and ms[0].start()==0: a=ms[0].end()
        if cfg['t'] in 'rb' and ms and ms[-1].end()==len(rec) and ms[-1].start()>=a: b=ms[-1].start()
        rec=rec[a:b]
    if rec==b'': return (b'' if cfg['s'] else b'\n'),True
    Rr=cfg['r']
    if cfg['p']:
        rec=g_rx.sub(lambda m:Rr,rec)
        # now literal split on R
        f=rec.split(Rr); s=[Rr]*(len(f)-1); lit=True
    else:
        f,s=gaps(rec,g_rx if cfg['g'] else n_rx); lit=False
    n=len(f)
    if cfg['s'] and n==1: return b'',True
    out=b''; nb=len(cfg['bounds'])
    for i,(l,r) in enumerate(cfg['bounds']):
        rr=resolve(l,r,n)
        if rr is None:
            if cfg['fb'] is None: return out,False
            piece=cfg['fb']
        else:
            lo,hi=rr; piece=b''
            for k in range(lo-1,hi):
                piece+=f[k]
                if k<hi-1: piece+=s[k]
            if Rr is not None:
                piece=(piece.replace(Rr,Rr) if lit else n_rx.sub(lambda m:Rr,piece))
        out+=piece
        if Rr is not None and i<nb-1: out+=Rr
    return out+b'\n',True
def spec_run(inp,cfg):
    recs=inp.split(b'\n')
    if recs[-1]==b'': recs.pop()
    out=b''
    for r in recs:
        o,ok=spec_record(r,cfg); out+=o
        if not ok: return out,False
    return out,True
def side(rng):
    if rng.random()<0.15: return None
    v=rng.randint(1,4); return -v if rng.random()<0.35 else v
def one(seed):
    rng=random.Random(seed)
    rx,alpha=rng.choice([(b'-',b'-xy'),(b'[-,]',b'-,xy'),(b'-|,,',b'-,xy'),(b',,|,',b',xy'),(b'-+',b'-xy'),('é'.encode(),'éxy'.encode()),(b'ab|a',b'abx')])
    def rec(): return bytes(rng.choice(alpha) for _ in range(rng.randint(0,8)))
    inp=b'\n'.join(rec() for _ in range(rng.randint(1,3)))+(b'\n' if rng.random()<0.6 else b'')
    try: inp.decode()
    except: 
        inp=inp.decode('utf8','ignore').encode()
    bounds=[]
    for _ in range(rng.randint(1,3)):
        l=side(rng); r=l if rng.random()<0.5 else side(rng)
        if l is None and r is None: l=1
        if l is not None and r is not None and l*r>0 and r<l: l,r=r,l
        bounds.append((l,r))
    def fm(b):
        l,r=b
        return str(l) if (l==r and l is not None) else ('' if l is None else str(l))+':'+('' if r is None else str(r))
    Rr=rng.choice([None,b'/',b'::',b'=x'])
    p=rng.random()<0.3 and Rr is not None
    cfg=dict(re=rx,g=rng.random()<0.3,p=p,s=rng.random()<0.2,t=rng.choice([None,None,'l','r']),r=Rr,fb=rng.choice([None,b'G']),bounds=bounds)
    argv=['-e',rx.decode(),'-f',','.join(fm(b) for b in bounds)]
    for k,fl in (('g','-g'),('p','-p'),('s','-s')):
        if cfg[k]: argv.append(fl)
    if cfg['t']: argv+=['-t',cfg['t']]
    if Rr is not None: argv+=['-r',Rr.decode()]
    if cfg['fb'] is not None: argv+=['--fallback-oob','G']
    q=subprocess.run([R]+argv,input=inp,capture_output=True)
    so,ok=spec_run(inp,cfg)
    if (q.returncode==0)!=ok or (ok and q.stdout!=so) or q.returncode not in (0,1):
        return (argv,inp,q.returncode,q.stdout,so,ok)
if __name__=='__main__':
    N=int(sys.argv[1])
    with ThreadPoolExecutor(16) as ex:
        bad=[r for r in ex.map(one,range(N)) if r]
    print('cases',N,'bad',len(bad))
    for b in bad[:40]: print(b)
