import random, subprocess, sys, os
from concurrent.futures import ThreadPoolExecutor
R='/tmp/tucrel/release/tuc'

def split_plain(line,d):
    fields=[];seps=[];i=0;start=0
    while True:
        j=line.find(d,i)
        if j<0: break
        fields.append(line[start:j]); seps.append(d); i=j+len(d); start=i
    fields.append(line[start:]); return fields,seps
def split_greedy(line,d):
    fields=[];seps=[];i=0;start=0
    while True:
        j=line.find(d,i)
        if j<0: break
        fields.append(line[start:j]); k=j+len(d)
        while line.startswith(d,k): k+=len(d)
        seps.append(line[j:k]); i=k; start=k
    fields.append(line[start:]); return fields,seps
def trim(line,d,kind):
    if kind in 'lb':
        while line.startswith(d): line=line[len(d):]
    if kind in 'rb':
        while line.endswith(d) : line=line[:-len(d)]
    return line
def compress(line,d):
    f,s=split_plain(line,d)
    keep=[f[0]]+[x for x in f[1:-1] if x!=b'']+([f[-1]] if len(f)>1 else [])
    return d.join(keep)
def resolve(l,r,n):
    def pos(v,dflt):
        if v is None: return dflt
        if v>n or v<-n: return None
        return v if v>0 else n+1+v
    lo=pos(l,1); hi=pos(r,n)
    if lo is None or hi is None or lo>hi: return None
    return lo,hi
def spec_record(rec,cfg):
    d=cfg['d']
    if cfg['t']: rec=trim(rec,d,cfg['t'])
    if rec==b'': return (b'' if cfg['s'] else cfg['eol']),True
    if cfg['p']: rec=compress(rec,d)
    f,s=(split_greedy if cfg['g'] else split_plain)(rec,d)
    n=len(f)
    if cfg['s'] and n==1: return b'',True
    out=b''
    join=cfg['j'] or cfg['r'] is not None
    joiner=cfg['r'] if cfg['r'] is not None else d
    bounds=[x for x in cfg['bofs'] if x[0]=='b']
    nb=len(bounds); bi=0
    for x in cfg['bofs']:
        if x[0]=='f': out+=x[1]; continue
        _,l,r,fb=x; bi+=1
        rr=resolve(l,r,n)
        if rr:
            lo,hi=rr; piece=b''
            for k in range(lo-1,hi):
                piece+=f[k]
                if k<hi-1: piece+= (cfg['r'] if cfg['r'] is not None else s[k]) if cfg['r'] is None else b''.join([cfg['r']]*(len(s[k])//len(d)))
        elif fb is not None: piece=fb
        elif cfg['fb'] is not None: piece=cfg['fb']
        else: return out,False
        out+=piece
        if join and bi<nb: out+=joiner
    return out+cfg['eol'],True
def spec_run(inp,cfg):
    eol=cfg['eol']
    recs=inp.split(eol)
    if recs[-1]==b'': recs.pop()
    out=b''
    for r in recs:
        o,ok=spec_record(r,cfg)
        out+=o
        if not ok: return out,False
    return out,True

def side(rng,neg=True):
    c=rng.random()
    if c<0.15: return None
    v=rng.randint(1,4)
    return -v if (neg and rng.random()<0.35) else v
def gen(rng):
    d=rng.choice([b'-',b'-',b'--',b'ab',b'aba',b'\t'])
    alpha=list(set(bytes([c]) for c in d))+[b'x',b'y',b'\xff']
    z=rng.random()<0.25
    eol=b'\0' if z else b'\n'
    other=b'\n' if z else b'\0'
    def rec():
        k=rng.randint(0,8)
        return b''.join(rng.choice(alpha+[other] if rng.random()<0.1 else alpha + [d]) for _ in range(k))
    nrec=rng.randint(1,3)
    inp=eol.join(rec() for _ in range(nrec))+(eol if rng.random()<0.6 else b'')
    bofs=[];txt=''
    fmt=rng.random()<0.3
    nb=rng.randint(1,3)
    parts=[]
    for i in range(nb):
        l=side(rng); 
        if rng.random()<0.5: r=l
        else: r=side(rng)
        if l is None and r is None: l=1
        if l is not None and r is not None and l*r>0 and r<l: l,r=r,l
        fb=None
        if rng.random()<0.3: fb=rng.choice([b'F',b'',b'f:+'])
        s=(str(l) if l==r else ('' if l is None else str(l))+':'+('' if r is None else str(r)))
        if fb is not None: s+='='+fb.decode()
        parts.append((l,r,fb,s))
    if fmt:
        for i,(l,r,fb,s) in enumerate(parts):
            if rng.random()<0.6:
                lit=rng.choice(['<','{{',' }}','\\n','é',' '])
                txt+=lit; bofs.append(('f',lit.replace('{{','{').replace('}}','}').replace('\\n','\n').encode()))
            txt+='{'+s+'}'; bofs.append(('b',l,r,fb))
        if rng.random()<0.5: txt+='>'; bofs.append(('f',b'>'))
        # merge adjacent fillers not needed
    else:
        txt=','.join(p[3] for p in parts); bofs=[('b',p[0],p[1],p[2]) for p in parts]
    cfg=dict(d=d,eol=eol,g=rng.random()<0.3,p=rng.random()<0.3,s=rng.random()<0.2,j=rng.random()<0.3,
             t=rng.choice([None,None,'l','r','b']),r=rng.choice([None,None,None,b'/',b'::',b'']),fb=rng.choice([None,None,b'G']),bofs=bofs)
    argv=['-d',d.decode(),'-f',txt]
    if z: argv.append('-z')
    for k,fl in (('g','-g'),('p','-p'),('s','-s'),('j','-j')):
        if cfg[k]: argv.append(fl)
    if cfg['t']: argv+=['-t',cfg['t']]
    if cfg['r'] is not None:
        if cfg['r']==b'': cfg['r']=None
        else: argv+=['-r',cfg['r'].decode()]
    if cfg['fb'] is not None: argv+=['--fallback-oob',cfg['fb'].decode()]
    return argv,inp,cfg
def one(seed):
    rng=random.Random(seed)
    argv,inp,cfg=gen(rng)
    p=subprocess.run([R]+argv,input=inp,capture_output=True)
    so,ok=spec_run(inp,cfg)
    iok=p.returncode==0
    if p.returncode not in (0,1): return ('CRASH',argv,inp,p.returncode,p.stdout,so)
    if iok!=ok or (ok and p.stdout!=so) or (not ok and not so.startswith(p.stdout[:len(so)]) and False):
        return ('DIFF',argv,inp,p.returncode,p.stdout,so,ok)
    return None
if __name__=='__main__':
    N=int(sys.argv[1]); base=int(sys.argv[2]) if len(sys.argv)>2 else 0
    bad=[]
    with ThreadPoolExecutor(16) as ex:
        for r in ex.map(one,range(base,base+N)):
            if r: bad.append(r)
    print('cases',N,'bad',len(bad))
    seen=set()
    for b in bad[:400]:
        key=(tuple(x for x in b[1] if x.startswith('-') and len(x)==2), )
        print(b)
