import itertools, subprocess, sys
from concurrent.futures import ThreadPoolExecutor
R='/tmp/tucrel/release/tuc'
# option atoms with representative values
MODES={'f':['-f'],'c':['-c'],'b':['-b'],'l':['-l'],'dflt':None}
def conflict(F):
    isF=F['mode'] in ('f','dflt')
    return bool((F['j'] and F['nj']) or (F['nj'] and (F['json'] or F['r'] or F['mode']=='c')) or (F['r'] and F['json'])
      or (F['json'] and (F['mode'] in ('b','l') or F['fmt']))
      or F['M']=='zero'
      or (F['M']=='pos' and ((F['d'] and F['dmulti']) or F['r']=='multi' or not F['asc'] or F['g'] or F['p'] or F['m'] or F['t'] or F['s'] or F['e'] or F['json'] or F['mode'] in ('c','b','l')))
      or (F['d'] and not isF) or (F['e'] and F['mode']=='c'))
def failfirst(F):
    isF=F['mode'] in ('f','dflt')
    replsome=bool(F['r']) or F['mode']=='c' or F['json']
    join=F['j'] or F['json'] or replsome or (F['mode']=='l' and not F['nj']) or F['mode']=='c'
    return F['e'] and isF and ((F['p'] and not replsome) or (join and not replsome))
def argv(F):
    a=[]
    bounds={'asc':'1,2','desc':'2,1','fmt':'x{1}y{2}','share':'1:2,2'}[F['bk']]
    if F['mode']!='dflt': a+=['-'+F['mode'],bounds]
    if F['d']: a+=['-d','--' if F['dmulti'] else '-']
    if F['e']: a+=['-e','[-]']
    for k,fl in (('g','-g'),('p','-p'),('s','-s'),('z','-z'),('m','-m'),('j','-j'),('nj','--no-join'),('json','--json')):
        if F[k]: a.append(fl)
    if F['r']: a+=['-r','::' if F['r']=='multi' else '/']
    if F['t']: a+=['-t','b']
    if F['fb']: a+=['--fallback-oob','G']
    if F['M']: a+=['-M','0' if F['M']=='zero' else '1']
    return a
def cases():
    for mode in MODES:
      for bk in (['asc'] if mode=='dflt' else ['asc','desc','fmt','share']):
        for d,dm in ((0,0),(1,0),(1,1)):
          for e in (0,1):
            for r in (None,'one','multi'):
              for M in (None,'zero','pos'):
                for bits in itertools.product((0,1),repeat=10):
                    g,p,s,z,m,j,nj,json,t,fb=bits
                    yield dict(mode=mode,bk=bk,d=d,dmulti=dm,e=e,r=r,M=M,g=g,p=p,s=s,z=z,m=m,j=j,nj=nj,json=json,t=t,fb=fb,
                               fmt=(bk=='fmt'),asc=(bk in ('asc','fmt')) )
def run(F):
    a=argv(F)
    out=[]
    D=(b'--' if F['dmulti'] else b'-') if F['d'] else b'\t'
    if F['e']: D=b'-'
    if F['mode'] in ('c','b','l'): D=b'-'
    eol=b'\0' if F['z'] else b'\n'
    probe=eol.join(D.join([b'a',b'b',b'c',b'd']) for _ in range(3))+eol
    for inp in (b'', probe):
        p=subprocess.run([R]+a,input=inp,capture_output=True)
        out.append((p.returncode,len(p.stdout)))
    exp_rej=conflict(F)
    ff=failfirst(F)
    (rc0,n0),(rc1,n1)=out
    if exp_rej:
        ok = rc0==1 and rc1==1 and n0==0 and n1==0
    elif ff:
        ok = rc0==0 and rc1==1
    elif F['mode']=='l' and F['e']:
        ok = True   # unconstrained corner
    else:
        ok = rc1==0 and (rc0==0 or F['mode']=='l')
    return None if ok else (a,out,exp_rej,ff)
if __name__=='__main__':
    import random
    cs=list(cases())
    random.Random(1).shuffle(cs)
    N=int(sys.argv[1])
    cs=cs[:N]
    bad=[]
    with ThreadPoolExecutor(16) as ex:
        for r in ex.map(run,cs):
            if r: bad.append(r)
    print('total space',len(list(cases())),'ran',len(cs),'bad',len(bad))
    for b in bad[:40]: print(b)
