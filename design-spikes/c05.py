import itertools, subprocess, sys, random
from concurrent.futures import ThreadPoolExecutor
from oracle_c01 import resolve
R='/tmp/tucrel/release/tuc'
def lines_of(inp,eol):
    if inp.endswith(eol): inp=inp[:-1]
    return inp.split(eol)
def spec_lines(inp,bounds,nojoin,eol=b'\n'):
    ls=lines_of(inp,eol); n=len(ls); out=[]
    for (l,r) in bounds:
        rr=resolve(l,r,n)
        if rr is None: return None
        lo,hi=rr; out.append(eol.join(ls[lo-1:hi]))
    return (b'' if nojoin else eol).join(out)+eol
def fmt(b):
    l,r=b
    if l==r and l is not None: return str(l)
    return ('' if l is None else str(l))+':'+('' if r is None else str(r))
def one(args):
    inp,bounds,nojoin=args
    so=spec_lines(inp,bounds,nojoin)
    if so is None: return None
    a=['-l',','.join(fmt(b) for b in bounds)]+(['--no-join'] if nojoin else [])
    p=subprocess.run([R]+a,input=inp,capture_output=True)
    if p.returncode!=0 or p.stdout!=so: return (a,inp,p.returncode,p.stdout,so)
    return None
if __name__=='__main__':
    sides=[None,1,2,3,-1,-2,-3]
    bl=[]
    for l in sides:
        for r in sides:
            if l is None and r is None: continue
            if l is not None and r is not None and l*r>0 and r<l: continue
            bl.append((l,r))
    inputs=[]
    for n in range(1,5):
        for t in itertools.product([b'a',b'bc',b''],repeat=n):
            for fin in (b'',b'\n'):
                inp=b'\n'.join(t)+fin
                if inp in (b'',b'\n'): continue
                inputs.append(inp)
    rng=random.Random(3)
    cases=[]
    for inp in inputs:
        for _ in range(12):
            k=rng.randint(1,3)
            cases.append((inp,[rng.choice(bl) for _ in range(k)],rng.random()<0.3))
    bad=[]
    with ThreadPoolExecutor(16) as ex:
        for r in ex.map(one,cases):
            if r: bad.append(r)
    print('cases',len(cases),'bad',len(bad))
    for b in bad[:40]: print(b)
