import Spike.Split
open Spike

def hexVal (c : Char) : Nat :=
  if '0' ≤ c ∧ c ≤ '9' then c.toNat - 48 else if 'a' ≤ c ∧ c ≤ 'f' then c.toNat - 87 else 0

def unhex : List Char → List UInt8
  | a :: b :: t => UInt8.ofNat (hexVal a * 16 + hexVal b) :: unhex t
  | _ => []

def hexDigit (n : Nat) : Char := if n < 10 then Char.ofNat (48 + n) else Char.ofNat (87 + n)
def hex (bs : List UInt8) : String :=
  String.ofList (bs.flatMap fun b => [hexDigit (b.toNat / 16), hexDigit (b.toNat % 16)])

partial def loop (h : IO.FS.Stream) (out : IO.FS.Stream) : IO Unit := do
  let line ← h.getLine
  if line.isEmpty then return ()
  match line.trimAscii.toString.splitOn " " with
  | [d, l] =>
    let r := split (unhex d.toList) (unhex l.toList)
    out.putStrLn (String.intercalate "," (r.map hex))
  | _ => out.putStrLn "bad"
  loop h out

def main : IO Unit := do
  let i ← IO.getStdin
  let o ← IO.getStdout
  loop i o
