import random, subprocess, sys, json
from concurrent.futures import ThreadPoolExecutor
R='/tmp/tucrel/release/tuc'
T=bytes.maketrans(b'\n\0',b'\0\n')
def run(a,i):
    p=subprocess.run([R]+a,input=i,capture_output=True); return p.returncode,p.stdout
def side(rng):
    if rng.random()<0.15: return None
    v=rng.randint(1,3); return -v if rng.random()<0.35 else v
def bounds(rng,plain=True):
    bs=[]
    for _ in range(rng.randint(1,3)):
        l=side(rng); r=l if rng.random()<0.5 else side(rng)
        if l is None and r is None: l=1
        if l is not None and r is not None and l*r>0 and r<l: l,r=r,l
        s=str(l) if (l==r and l is not None) else ('' if l is None else str(l))+':'+('' if r is None else str(r))
        if rng.random()<0.25: s+='=F'
        bs.append(s)
    return ','.join(bs)
def gen_mode(rng):
    m=rng.choice(['f','f','fM','c','l','b'])
    a=[]
    if m=='f':
        d=rng.choice(['-','--'])
        a=['-d',d,'-f',bounds(rng)]
        for fl in ('-g','-p','-s','-j'):
            if rng.random()<0.25: a.append(fl)
        if rng.random()<0.3: a+=['-t',rng.choice('lrb')]
        if rng.random()<0.2: a+=['-r','/']
    elif m=='fM':
        a=['-d','-','-f',rng.choice(['1','2','1,2','1:2','2:','1,3:','{1}x','x{2}','{2=F}']),'-M','1']
        if rng.random()<0.3: a.append('-j')
    elif m=='c': a=['-c',bounds(rng)]
    elif m=='l':
        a=['-l',bounds(rng)]
        if rng.random()<0.3: a.append('--no-join')
    else: a=['-b',bounds(rng)]
    if rng.random()<0.3: a+=['--fallback-oob','G']
    return m,a
def gen_input(rng,m):
    alpha=[b'a',b'b',b'-',b'-',b'\0',b'\n',b'\n']+([b'\r'] if rng.random()<0.2 else [])
    if m=='c': alpha+=['é'.encode()]
    return b''.join(rng.choice(alpha) for _ in range(rng.randint(0,12)))
def c11(seed):
    rng=random.Random(seed); m,a=gen_mode(rng)
    if m=='b': return None
    i=gen_input(rng,m)
    r1=run(a,i); r2=run(a+['-z'],i.translate(T))
    if r1[0]!=r2[0] or (r1[0]==0 and r1[1].translate(T)!=r2[1]): return ('C11',a,i,r1,r2)
def c10(seed):
    rng=random.Random(seed); m,a=gen_mode(rng)
    if m in ('b','l'): return None
    A=gen_input(rng,m)+b'\n'; B=gen_input(rng,m)
    ra=run(a,A); rb=run(a,B); rab=run(a,A+B)
    if ra[0]!=0: exp=(ra[0],ra[1])
    else: exp=(rb[0],ra[1]+rb[1])
    if exp[0]!=rab[0] or (rab[0]==0 and exp[1]!=rab[1]): return ('C10',a,A,B,ra,rb,rab)
if __name__=='__main__':
    which={'c11':c11,'c10':c10}[sys.argv[1]]; N=int(sys.argv[2])
    with ThreadPoolExecutor(16) as ex:
        bad=[r for r in ex.map(which,range(N)) if r]
    print(sys.argv[1],'cases',N,'bad',len(bad))
    for b in bad[:25]: print(b)
