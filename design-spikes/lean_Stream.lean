/-! Spike: model of the (repaired) fixed-memory cutter and the chunk-independence argument. -/
namespace Spike.Stream

abbrev Bytes := List UInt8

inductive Side where
  | some (v : Int)
  | cont
deriving DecidableEq, Repr

structure UB where
  l : Side
  r : Side
  isLast : Bool
  fb : Option Bytes
deriving Repr

inductive BoF where
  | bound (b : UB)
  | filler (f : Bytes)
deriving Repr

structure SOpt where
  delim : UInt8
  repl : Option UInt8
  join : Bool
  eol : UInt8
  fallback : Option Bytes
  bounds : List BoF
  last : Side
deriving Repr

def UB.matches (b : UB) (idx : Int) : Bool :=
  match b.l, b.r with
  | .cont, .cont => true
  | .some l, .some r => decide (l ≤ idx) && decide (idx ≤ r)
  | .cont, .some r => decide (idx ≤ r)
  | .some l, .cont => decide (l ≤ idx)

/-- per-record state of `cut_bytes_stream` -/
structure RS where
  bofIdx : Nat
  curr : Int
  trunc : Bool
deriving Repr, DecidableEq

def joiner (o : SOpt) : UInt8 := o.repl.getD o.delim

/-- `print_bof`: returns what is written and the new `bof_idx`. -/
def printBof (o : SOpt) (st : RS) (piece : Bytes) (complete : Bool) : Bytes × Nat :=
  let (w0, i) : Bytes × Nat := match o.bounds[st.bofIdx]? with
    | some (.filler f) => (f, st.bofIdx + 1)
    | _ => ([], st.bofIdx)
  match o.bounds[i]? with
  | some (.bound b) =>
    if b.matches st.curr then
      let prepend := !st.trunc && decide (st.curr > 1) && decide (b.l ≠ .some st.curr)
      let w1 := (if prepend then [joiner o] else []) ++ piece
      if complete && decide (b.r = .some st.curr) then
        (w0 ++ w1 ++ (if o.join && !b.isLast then [joiner o] else []), i + 1)
      else (w0 ++ w1, i)
    else (w0, i)
  | _ => (w0, i)

/-- the parser never produces two fillers in a row -/
def NoAdjFillers : List BoF → Prop
  | .filler _ :: .filler _ :: _ => False
  | _ :: t => NoAdjFillers t
  | [] => True

theorem noAdj_get (l : List BoF) (h : NoAdjFillers l) (i : Nat) (f g : Bytes)
    (h0 : l[i]? = some (.filler f)) (h1 : l[i+1]? = some (.filler g)) : False := by
  induction l generalizing i with
  | nil => simp at h0
  | cons a t ih =>
    cases i with
    | zero =>
      cases t with
      | nil => simp at h1
      | cons b t' =>
        simp at h0 h1; subst h0; subst h1; simp [NoAdjFillers] at h
    | succ k =>
      have ht : NoAdjFillers t := by
        cases a with
        | bound _ => simpa [NoAdjFillers] using h
        | filler _ =>
          cases t with
          | nil => trivial
          | cons b t' =>
            cases b with
            | bound _ => simpa [NoAdjFillers] using h
            | filler _ => simp [NoAdjFillers] at h
      exact ih ht k (by simpa using h0) (by simpa using h1)

/-- feeding an incomplete piece in two parts is the same as feeding it at once -/
theorem printBof_append (o : SOpt) (hwf : NoAdjFillers o.bounds) (st : RS) (p₁ p₂ : Bytes) (h₁ : p₁ ≠ []) :
    let r₁ := printBof o st p₁ false
    let r₂ := printBof o { st with bofIdx := r₁.2, trunc := true } p₂ false
    printBof o st (p₁ ++ p₂) false = (r₁.1 ++ r₂.1, r₂.2) := by
  simp only [printBof]
  cases h0 : o.bounds[st.bofIdx]? with
  | none => simp [h0]
  | some x =>
    cases x with
    | bound b =>
      simp only [h0]
      by_cases hm : b.matches st.curr
      · simp [hm, h0]
      · simp [hm, h0]
    | filler f =>
      simp only []
      cases h1 : o.bounds[st.bofIdx + 1]? with
      | none => simp [h1]
      | some y =>
        cases y with
        | filler g => exact (noAdj_get _ hwf _ f g h0 h1).elim
        | bound b =>
          by_cases hm : b.matches st.curr
          · simp [hm, h1]
          · simp [hm, h1]

end Spike.Stream
