#!/usr/bin/env python3
"""Regenerate /verif/MANIFEST.json from the table below (keeps it schema-valid at all times)."""
import json
import os

VERIF = os.path.dirname(os.path.dirname(os.path.abspath(__file__)))

TIE = ("Tie to the code: the Lean model is hand-written; on every run the Rust harness (path dependency on /repo, rebuilt from the "
       "working tree) and the compiled Lean driver execute the same generated cases and every difference is reported. "
       "Trusted: Lean kernel (+ propext, Classical.choice, Quot.sound), the harness/driver/comparator, the models of std::io buffering, "
       "the regex engine's matching, bstr replace/trim, pico_args; the library routines on the data path (bstr for_byte_record, std read_until, memmem, serde_json escaping, core UTF-8 validation, regex replace_all) "
       "are transcribed from their source and proved equal to the model functions (Props/ReadLoops, TextLoops, LibLit, RegexLit).")

# id -> (category, text, note, technique, design_ref)
CLAIMED = {}


def claim(pid, category, text, note, technique, ref):
    CLAIMED[pid] = (category, text, note, technique, ref)


claim("C01", "proof",
      "Theorem general_engine_eq_spec(_of_parsed): for EVERY input, every non-empty literal delimiter (also self-overlapping), every subset of "
      "-g -p -t -s -j -r -m --fallback-oob and every bounds list the parser can produce, the model of read_and_cut_str equals the abstract per-record "
      "specification (tokens by content, resolve, pieceText, joiner after every bound but the last) — output and status, never a panic; with C02 the fast "
      "path too. The splitting / greedy / compress / trim helpers are also transcribed loop by loop (Model/TextLoops.lean: checked slices, checked usize subtraction, fuelled while loops, the memmem "
      "iterator behind find_iter) and proved equal to the normal forms the engine theorem uses, for every line, delimiter and buffer content (Props/TextLoops.lean). "
      "End to end (Props/EndToEnd.lean, 44 theorems): tucMain (= parse_args + regex compilation + dispatch, the definition the K-argv differential ties to the "
      "binary) on every canonical command line of field mode equals .run (specRun K.cfg input) — tuc_fields_eq_spec, and likewise --json, -M (admissible inputs, every "
      "segmentation), -b, -c, -l (both algorithms) and tuc_reject_iff_conflict. Direct oracle: implementation vs the executed specification, bounded-exhaustive + random, through read_and_cut_str, the fast lane and "
      "main's dispatch; the real binary against the library fed in small pieces on inputs up to 260 KB. "
      "The body of cut_str itself (cut_str.rs:260-456, with the machine-integer try_into_range) is transcribed statement by statement and proved equal to the model — run and both scratch buffers — for every record and option record "
      "(Props/CutStrLit.lean: cutStrLit_eq under BoundsOk, which every parsed command line satisfies, and fewer than 2^31 fields, shown necessary by cutStrLit_length_necessary). CAPSTONE (Props/WholeLit.lean): "
      "tucProgramLit — the whole program assembled ONLY from the statement-level transcriptions (parse_args, dispatch, bstr's for_byte_record / std's read_until over a segmented reader, cut_str, the fast lane, the -M loop, both -l "
      "algorithms, byte mode) — equals tucMain for every argument vector, input and segmentation into non-empty reads on a decidable domain (records below the i32 limits); corollaries: never panics or hangs there, chunk "
      "independence of the whole program for every engine, and the end-to-end specification theorems transported to it (tucProgramLit_fields_eq_spec). "
      "Props/WholeLit2.lean removes the four remaining normal-form callees inside it (the text helpers over memmem's iterator, the regex twins and replace_all, serde_json / core UTF-8 validation, the machine-integer try_into_range / matches / unpack / complement, print_bof, "
      "the bounds-list scanner): tucProgramLit2_eq for every alignment oracle, argv, input and segmentation on InDomain2.",
      TIE,
      "Lean 4 theorems over a hand-written model + differential correspondence + executed abstract specification as oracle", "§4 C01")

claim("C02", "proof",
      "Theorem readAndCutFast_eq_readAndCutStr: for every Opt in the fast path's domain (eligibility proved to be exactly the documented one), every bounds "
      "list built by fromVec with non-zero indexes and EVERY input, the model of the fast lane equals the model of the general path — including the early stop "
      "(fastScan_earlyStop, earlyStop_sound, lastInteresting_spec), the -s rule and out-of-range reports. Direct oracle: both real entry points on the same "
      "Opt, in-process, bounded-exhaustive + random.",
      TIE, "Lean 4 equivalence theorem of two programs (scan refinement + per-bound agreement) + two-implementation oracle", "§4 C02")

claim("C03", "proof",
      "Theorem stream_refines_spec_of_parsed / dispatch_fixedMemory_eq_spec: for every option set -M accepts, every bounds argument the parser accepts, every "
      "segmentation and every input all of whose records are admissible (each closed range wholly present or wholly absent), the chunk machine equals the "
      "abstract per-record specification — output and status; with C01 this is the same cut as without -M. Direct oracle: streaming entry point vs "
      "read_and_cut_str on the same Opt, admissible inputs, exhaustive small inputs × segmentations + random large-field inputs.",
      TIE, "Lean 4 refinement theorem (induction over fields with a pending-bound invariant, via the canonical untagged run of C04) + two-implementation oracle", "§4 C03")

claim("C04", "proof",
      "Theorem chunk_independent: for every -M option set whose bounds have no two adjacent literal texts (discharged for everything the parser accepts: "
      "dispatch_fixedMemory_chunk_independent has no such hypothesis) and EVERY two segmentations of the same bytes, output and status are equal; corollaries for "
      "all buffer sizes and short reads. A counterexample shows the hypothesis is necessary for hand-built lists. The tagged-byte machine the proof is about is itself "
      "proved equal (Props/StreamLoop.lean, cutBytesStreamLoop_eq, 70 theorems) to a statement-by-statement transcription of cut_bytes_stream — the Rust locals under their own names, "
      "fill_buf/consume over the list of reads, the nested loops, checked chunk[i] and &chunk[a..b] — for every option record without negative indexes and every segmentation into "
      "non-empty reads; so the loop as written never indexes out of range. Direct oracle: EVERY "
      "segmentation of every small input vs the one-segment reader, on the implementation; inputs with fields of 1 KiB - 70 KiB under adversarial large reads.",
      TIE, "Lean 4 simulation proof over a tagged-byte machine (flush relation) + exhaustive segmentation oracle", "§4 C04")

claim("C09", "proof",
      "Theorems (44): try_into_range / resolve are invariant under rewriting any subset of negative indexes -k to n+1-k; specRecord_mirror / specRun_mirror / specLines_mirror / "
      "specBytes_mirror for every request (-g -p -t -s -j -r -m --json -c); transported to the engines for inputs whose records all have n parts: readAndCutStr_mirror, "
      "readAndCutFast_mirror (crossing the early-stop boundary), readAndCutLines_mirror (crossing the two algorithms, on the C05 domain), readAndCutBytes_mirror. Direct oracle: "
      "implementation on B vs B' in every mode.",
      TIE + " One known finding (line-at-a-time straddling range with fallback) is listed in KNOWN_FINDINGS.txt; a decide example shows the unrestricted -l mirror statement is false there.",
      "Lean 4 theorems (omega over Int, spec law + transport through the refinement theorems) + metamorphic oracle", "§4 C09")
claim("C10", "proof",
      "Theorems for all inputs and options: scratch buffers never influence a record (general path and fast lane); records(A‖B) = records(A) ++ records(B) when A "
      "ends with EOL; run(A‖B) = run(A) then run(B), and = run(A) when A fails — for read_and_cut_str (incl. -c, --json), the fast lane, and -M under EVERY "
      "segmentation (cutBytesStream_append; the state after an EOL is the initial one from any state). Direct oracle: A, B, A‖B on the implementation, and cut_str "
      "with dirty scratch buffers.",
      TIE, "Lean 4 theorems (induction over records, Run.seq algebra, state-reset lemma) + metamorphic oracle", "§4 C10")

claim("C13", "proof",
      "Program level (Props/MainLevel2.lean, 103 theorems over tucMain on canonical command lines): tucMain_never_silent_fields / _lines / _bytes / _fixedMemory_admissible and the exact "
      "fallback equations tucMain_fallback_* (own fallback, else generic, verbatim, at the bound's place); the same file lifts C15 (tucMain_complement_fields / _lines, "
      "tucMain_complement_empty_fields) and C09 (tucMain_mirror_fields / _lines / _bytes, with a printing function boundsToText proved to parse back) to the program. "
      "Engine level: emit_rule (piece iff resolvable, else own fallback, else generic, else fail), piece_exact (a resolved bound is built from its own fields only), resolve_none_iff "
      "(unresolvable ⇔ an index out of ±n or crossing sides), emit_never_silent; transported: readAndCutStr_never_silent, readAndCutFast_never_silent, cutLines/fwd/readAndCutLines_never_silent "
      "(both -l algorithms), readAndCutBytes_never_silent, stream_never_silent (-M, admissible inputs), for -m/--json/-c too; per-engine branch lemmas. Direct oracle: implementation vs executed "
      "specification in every mode, any subset of bounds unresolvable, final record with/without EOL.",
      TIE + " Two known findings (ranges straddling the end with a fallback, in -l line-at-a-time and -M) are listed in KNOWN_FINDINGS.txt.",
      "Lean 4 theorems (spec laws + transport through the refinement theorems) + executed specification as oracle", "§4 C13")
claim("C15", "proof",
      "Theorems (24): complement_eq_spec (UserBounds::complement = 1…lo-1 then hi+1…n); specRecord_complement: -m B is the request with B rewritten in place (order kept), and fails iff "
      "every bound covers everything (complement_empty_iff); transported: readAndCutStr_complement (every literal delimiter, -g -p -t -s -j -r, inputs whose records have n fields), "
      "readAndCutStr_complement_empty, readAndCutLines_complement(_plain). Direct oracle: -m B vs the rewritten list, on the implementation, in -f/--json/-l with -j/-r.",
      TIE, "Lean 4 theorems (spec law + transport through the refinement theorems) + metamorphic oracle", "§4 C15")
claim("C06", "proof",
      "Theorem readAndCutBytes_eq_spec: for EVERY byte string and every bounds list with non-zero indexes the model of read_and_cut_bytes equals the "
      "specification (fillers verbatim, each bound = data[lo-1..hi] or its fallback rule, nothing appended, empty input ⇒ empty output), and never "
      "panics. Reader level (Props/ReadLoops.lean, 38 theorems): read_bytes_to_end / cut_bytes / read_and_cut_bytes — and bstr's for_byte_record_with_terminator, std's read_until and read_and_cut_str — transcribed statement by statement over a reader that hands the input out in ARBITRARY non-empty pieces: readAndCutBytesLoop_eq / readAndCutStrLoop_eq prove the run equal to the model on the concatenation for every segmentation (no checked slice panics, fuel 2·bytes+2 never used up). Direct oracle: implementation vs executed specification, exhaustive small alphabets incl. NUL/LF/0xFF + large random inputs.",
      TIE, "Lean 4 refinement theorem (engine = abstract spec) + differential correspondence", "§4 C06")
claim("C07", "proof",
      "Theorems (57): chars_run_eq_spec(_of_parsed): for every VALID UTF-8 input, every bounds argument the parser accepts, -z, -m, format text, fallbacks, the model of "
      "character mode equals the per-record specification over `utf8Chars` (scalar values as parts) — output and status; chars_output_valid: the output is valid "
      "UTF-8 whenever format text and fallbacks are; utf8 segmentation loses/splits nothing, every piece is one well-formed scalar, the engine's field vector is exactly "
      "the list of scalar ranges. Direct oracle: implementation (with the real regex \\b|\\B) vs executed spec in-process AND the real binary end to end on -c command lines.",
      TIE + " The regex engine's behaviour for \\b|\\B (a match at every scalar boundary of valid UTF-8) is modelled and validated by the correspondence, not proved.",
      "Lean 4 refinement theorem (character-mode engine = abstract spec over the UTF-8 decoder) + differential correspondence incl. CLI round trip", "§4 C07")
claim("C08", "proof",
      "Theorems (51): json_run_eq_spec(_of_parsed): with --json the general engine equals the per-record specification for EVERY line (also non-UTF-8: both fail at the same "
      "element), every literal delimiter and -g -p -t -s -m; json_record_decodes: the output line decodes, with an independent strict RFC 8259 reader defined in Lean, to exactly "
      "the selected part texts — one element per field of a range, one per fallback; jsonDecodeString (jsonString s ++ rest) = (s, rest) for every byte string; no raw control "
      "byte in a line; same for -c (chars_json_record_eq_spec). Direct oracle: every output line parsed by python's strict json and compared element-wise with an independent selection.",
      TIE + " serde_json's escaping (format_escaped_str_contents, the 256-entry ESCAPE table, write_char_escape) and core's UTF-8 validation (run_utf8_validation with its ASCII fast path, UTF8_CHAR_WIDTH) are transcribed from the library source "
      "and proved equal to jsonString / validUtf8 for every input (Props/LibLit.lean, 71 theorems: formatEscapedStrLit_eq, runUtf8ValidationLit_ok_iff, the table facts by decide +kernel over all 256 bytes; writeAsJsonLit_eq has no hypothesis).",
      "Lean 4 refinement + round-trip theorems (encoder/decoder, unpack = expand) + independent JSON reader oracle", "§4 C08")
claim("C19", "proof",
      "Theorems over the whole option-set space (case analysis, not enumeration): decision f = reject ⇔ conflict f (the statement's list, clause by "
      "clause); accepted ⇔ no conflict; failFirst ⇔ -e with -j/-p and neither -r nor --json; implied join; engine choice; -z/--fallback-oob never "
      "matter. Correspondence: the REAL binary run on the option sets (quick: seeded sample of 20 000 sets × 2 probes + re-orderings; thorough: all "
      "276 480 sets: every combination of the options that can matter, -z / --fallback-oob / unknown argument drawn per set), status/stdout against the model's decision and against the statement; "
      "-M on every list of 1-3 bounds over sides {open,1,2,3,-1}, accepted iff strictly ascending. argv → option set is modelled too (Model/Argv.lean: pico_args 0.5 with "
      "short-space-opt/combined-flags/eq-separator + parse_args step by step, 405 lines) with theorems in Props/C19Argv (177): parseArgv never panics; on well-formed "
      "command lines it equals a table lookup and is invariant under every permutation of the option groups (parseArgv_perm); on canonical command lines it rejects "
      "iff decision (flagsOf …) = reject (parseArgv_canonArgv_decision). Props/OptLit.lean (70 theorems): StreamOpt::try_from, ForwardBounds::try_from / get_last_bound, FastOpt::try_from, print_bof / print_field, Trim::from_str and main's dispatch transcribed statement by statement and proved equal to the model (tucMainLit_eq: for every argv, input and segmentation; the only forced hypothesis — a non-empty bounds list made of fillers only, on which ForwardBounds::try_from panics in expect() instead of returning its Err — is proved unreachable from any command line). K-argv: random argument vectors in every spelling pico_args accepts vs the real binary.",
      TIE + " Don't-cares: -l with -e; default bounds with -m (data-dependent failure, C15). Non-canonical spellings (glued values, clusters, repeated options) are "
      "covered by the K-argv differential only.",
      "Lean 4 decision-table theorem + argv-parser model with permutation-invariance theorem + exhaustive CLI correspondence", "§4 C19")

claim("C05", "proof",
      "Theorems: the one-line-at-a-time algorithm equals specLines (output and status) for every input other than the empty one or a lone EOL and every "
      "plain forward-only bounds list resolvable on it (fwd_eq_spec, readAndCutLines_eq_spec); closed form of the output with and without --no-join; a "
      "single trailing EOL never counts as an extra line; is_forward_only in closed form (positive + ascending with open left = 1). The buffered "
      "algorithm is the general engine on the EOL-delimited input (C01). Direct oracle: implementation vs executed specLines; ascending requests vs an "
      "equivalent request that forces buffering.",
      TIE, "Lean 4 refinement theorem (induction over the lines with an invariant on the pending bound) + two-algorithm oracle", "§4 C05")
claim("C12", "proof",
      "In the model every Rust panic site is a checked operation yielding Status.panic. Program level (Props/MainLevel.lean): tucMain_never_panics — for EVERY argument vector "
      "(any spelling pico_args accepts, -e RE included), every input and every segmentation, tucMain (parse_args + regex compilation + dispatch) is not a panic and a run ends ok or fail; "
      "the same file lifts C04 (tucMain_chunk_independent, all argv), C14's writer side (tucMain_deliver_prefix / _cut_fails / _enough), C10 (tucMain_append, every field-mode argv) and C11 "
      "(tucMain_swap, canonical command lines of all four modes) to the program. Theorems dispatch_no_panic / mainModel_total: for EVERY bounds argument the "
      "parser accepts (parsing itself never panics, for every string), every option set, every input and segmentation, main's dispatch ends with status ok or fail — "
      "general engine (any delimiter incl. empty, all flags), character mode, fast lane, bytes, both -l algorithms, -M; regex delimiters under the find_iter contract. "
      "Range expansion is bounded by the record length, not the index value; fuel of the trim loop provably suffices. The implementation oracle carries what the model "
      "abstracts: ALL bounds strings ≤ L symbols × every mode, a boundary stream for the scanning loops (also as 2nd/3rd record after records with several fields), random argument vectors against the argv model (K-argv), and adversarial argv × stdin on the debug and release binaries "
      "(timeout 10 s, address space of each child limited to 1 GiB).",
      TIE + " Panic/hang sites inside third-party crates (regex, serde_json, bstr) are reachable only by the implementation oracle.",
      "Lean 4 theorems (unreachability of modelled panic sites, end to end from the parser) + adversarial CLI / in-process exploration", "§4 C12")
claim("C14", "proof",
      "Theorems: under a writer failing after k bytes the delivered bytes are a prefix of the fault-free output, a cut never ends in a successful exit, a successful exit "
      "delivered everything; under a reader failing after any prefix of the input (any segmentation) the run is not a success (except the one-line-at-a-time -l once "
      "every bound is served, where the output is proved complete) and the delivered bytes are a prefix of the fault-free output, for every engine (read_fault_prefix, "
      "stream_monotone); a failing record leaves the complete output of earlier records (failing_record). Fault enumeration: main's dispatch with Read/Write doubles "
      "failing at EVERY byte position (model = implementation on each), short writes; real binary with RLIMIT_FSIZE=k (byte exact), /dev/full, closed pipe, stdin from a "
      "directory. The buffering layer under the engines is no longer assumed: std's BufWriter (write / write_all / flush_buf), LineWriterShim and LineWriter, the default write_all loop and BufReader (fill_buf / consume / the large-read bypass) "
      "are transcribed from the std source over a raw descriptor whose every write / read is answered by an arbitrary ORACLE (short counts, EINTR, Ok(0), hard errors), and main's composition BufWriter(64 KiB) over LineWriter(1 KiB) over fd 1 is proved "
      "(Props/StdioLit.lean, 110 theorems, all capacities): W1 a fault-free OS delivers exactly the concatenation of the write_all calls and flush leaves both buffers empty; W2 under any oracle what reached the descriptor is a PREFIX, status 0 implies "
      "complete, and it equals `deliver` of the model for some limit (W2_deliver — the theorem that ties the model's fault wrapper to std's text); W3 `write` in place of `write_all` is short exactly on slices ≥ capacity with an interior newline and a tail ≥ 1 KiB "
      "(write_is_short; why four independent seeded changes of that kind hide), a flush skipped when the BufWriter is empty loses the LineWriter's tail silently (skipped_flush_silent_loss = seeded change C14m); R1 BufReader::fill_buf is empty only at EOF for capacity > 0 "
      "(R1_fill_buf_empty_only_at_eof, R1_initial_segs: discharges the 'reads are non-empty' hypothesis of every reader theorem from the read(2) contract; capacity 0 = seeded change C04m).",
      TIE + " Kernel-side pipe/EPIPE timing and stderr delivery are observed at the CLI, not modelled.",
      "Lean 4 theorems over a fault model (deliver / dispatchReadFault, prefix monotonicity) + exhaustive fault-position enumeration", "§4 C14")
claim("C18", "proof",
      "Theorem parse_eq_spec: for EVERY string, UserBoundsList::from_str's model accepts exactly what an independent grammar (maximal-munch lexer + token "
      "parser + declarative bound syntax) accepts and yields the same list; plus: never panics, accepted bounds are non-zero i32 with same-sign ranges "
      "non-decreasing, the four chained replace calls equal token-wise unescaping, no two adjacent fillers (73 theorems). userboundslist.rs likewise (Props/BoundsListLit.lean, 81 theorems: parse_bounds_list with byte offsets and checked str slices = the model scanner for EVERY string — no slice is ever out of range or off a char boundary —, from_str, From<Vec>, is_sortable, is_sorted, has_negative_indices, is_forward_only, unpack, complement). Machine integers (Props/BoundsLit.lean, 109 theorems): side.rs and userbounds.rs transcribed statement by statement with i32 values, checked + - * and the as-casts of the Rust text, and proved equal to the unbounded model — the i32 parser of core (both digit loops), Side::from_str, UserBounds::from_str, matches, the orderings with no hypothesis; try_into_range / unpack / complement under parts_length < 2^31 and a non-zero left side, both shown necessary by witnesses. Direct oracle: implementation vs "
      "the executed grammar on every string ≤ L symbols + random; rendering on probe records vs the executed specification.",
      TIE, "Lean 4 language-recognition theorem (scanner with look-ahead = lexer+parser, simulation proof) + bounded-exhaustive correspondence", "§4 C18")

claim("C16", "proof",
      "Theorems (60) for ANY matcher satisfying the find_iter contract (sorted, non-overlapping, in range): regexCut_eq_spec / regexRun_eq_spec — without -r/-p the engine equals a "
      "specification over the match lists (fields = gaps between matches, -g = gaps between greedy matches, separators kept verbatim, -t removes only the greedy match touching the chosen "
      "end, -s, -m, fallbacks); with -r R under slice-stability of the matcher the separators are rendered as R verbatim (with -g: regexCut_replace_greedy_eq_spec, under the extra hypothesis GreedyTiled — every (RE)+ match is tiled by the RE matches inside it — proved for one-byte expressions of the Lean matcher and measured on the real engine's match lists in every run); -p -r R equals the LITERAL engine on the rewritten record "
      "(hence the literal refinement theorem). The executable Lean matcher for the family is proved to satisfy the contract. Direct oracle: the statement executed over match positions of "
      "an INDEPENDENT engine (python re), in-process and on the real binary; the real engine's match positions compared with python's and the Lean matcher's on every record.",
      TIE + " The four functions that CONSUME the match list (fill_with_fields_locations_using_regex, trim_regex, compress_delimiter_with_regex, regex's replace_all with NoExpand) are transcribed statement by statement and proved equal to the normal forms for every line and every match list — "
      "exactly: = the normal form when the list satisfies a decidable condition (ChainOK / TrimOK, implied by the find_iter contract, empty matches included), a slice panic otherwise (Props/RegexLit.lean, 29 theorems); expressions that match the empty string are decided on the real engine's own match positions (c16.empty_match_stream). "
      "Partial by nature: the regex crate is outside the model; slice-stability and 'greedy = runs of normal matches' are validated by testing, not proved for the real engine; "
      "anchors, look-around, empty matches, class ranges are outside the family.",
      "Lean 4 refinement theorems parametric in the matcher + oracle over an independent regex engine + matcher correspondence", "§4 C16")
claim("C17", "proof",
      "Theorems on GHOST-INSTRUMENTED copies of the statement-level loops (a `peak` accumulator over the sizes of the owned, growable buffers; ERASURE theorems show each instrumented function runs exactly the "
      "frozen transcription that is proved equal to the model): -l ascending — the line buffer never exceeds the longest line (cutLinesForwardOnlyLoopI_peak_le), for every input; fast lane — the field-start vector never exceeds "
      "delimiters-of-the-busiest-record + 2 and, with an early stop at field k, k + 1, the record buffer the longest record (readAndCutTextAsBytesLoopI_fields_le/_stop/_record_le); general engine, -c, --json, -e "
      "(Props/Space2.lean) — bstr's assembly buffer ≤ longest record + 1, `fields` ≤ w + 2, `compressed_line_buf` ≤ len, the rewritten line ≤ w, unpacked / complemented bounds ≤ 2·B·(w+2), with w = len + (len+1)·|-r| and B the number of bounds "
      "(readAndCutStrWholeI_cut_le / _bytes_le: every input, every segmentation into non-empty reads — independent of the NUMBER of records), the scratch vectors never accumulate across records (cutStrLitI_scratch); -M — the state that crosses a "
      "fill_buf is a fixed tuple of four flags and four numbers of which the indexes are bounded by the chunk length (cutBytesStreamLoopI_ok, every segmentation); and `…_replicate`: k copies of a block of complete records have the peak of one. "
      "What no theorem reaches — the allocator, Vec's capacity policy, the BufReader / BufWriter capacities fixed in main, the regex crate's caches, serde_json's per-field String, the stack — is MEASURED on every run: counting global allocator in the harness, "
      "synthetic generator → engine (same 64 KiB buffers as main) → sink, peak live heap for N, 16N, 256N must stay within 64 KiB, every ascending -l request over sides {open,1,2,3} in every spelling, random option sets, a control that is SEEN to grow.",
      "Level: the theorems bound the element counts of the buffers the transcribed code owns, not bytes handed out by the allocator; the statement's 'peak memory' is reached through the measurement. Trusted besides the usual: the counting allocator wrapper, the synthetic "
      "reader, the harness building main's buffering faithfully; that the instrumentation points (after every clear / push / extend / read) are the places where the buffers change.",
      "Lean 4 invariant theorems over ghost-instrumented transcriptions of the loops (erasure + peak bounds + replication) + measured peak-heap growth", "§4 C17")

claim("C11", "proof",
      "Theorems (110+), for every input, with τ the transposition of LF and NUL and -z toggled: readAndCutStr_swap (general engine: -g -p -t -s -j -r -m, "
      "fallbacks, format text), readAndCutFast_swap, cutBytesStream_swap (every segmentation), readAndCutLines_swap (both -l algorithms), "
      "readAndCutStr_swap_chars (-c); the engine choice does not depend on -z; built on naturality lemmas for arbitrary injective byte maps (findIter, "
      "replace, trim, compress, records). Domain: delimiter/replacement/format text/fallbacks contain neither byte; --json and -e excluded (DESIGN §5.4). "
      "Direct oracle: implementation on (args, I) vs (-z args, τ I) in every mode.",
      TIE + " The proof attempt found defect D25 (UTF-8 validation asymmetry of -l), since repaired.",
      "Lean 4 equivariance theorems (naturality under an injective byte map, instantiated with the LF/NUL swap) + metamorphic oracle", "§4 C11")

NOT_YET = "check under construction in this session (model, harness and driver exist; the property's check is not registered yet)"


def main():
    props = [json.loads(l)["id"] for l in open(os.path.join(VERIF, "properties.jsonl"))]
    checks = []
    na = []
    for pid in props:
        if pid in CLAIMED:
            cat, text, note, tech, ref = CLAIMED[pid]
            checks.append({
                "property_id": pid,
                "quick_cmd": f"bin/check {pid} --tier quick",
                "thorough_cmd": f"bin/check {pid} --tier thorough",
                "evidence_file": f"/verif/evidence/{pid}.json",
                "replay_cmd_template": f"bin/check {pid} --replay {{path}}",
                "engine": "lean-model+harness",
                "level_claimed": {"category": cat, "text": text, "design_ref": ref},
                "level_note": note,
                "technique": tech,
            })
        else:
            na.append({"property_id": pid, "reason": NOT_YET})
    m = {
        "version": 1,
        "setup_cmd": "bin/setup",
        "hooks": {
            "guard": "tuc_verif",
            "enable": "no source hook is needed: every entry point the checks call is `pub`; the guard name is reserved and unused",
            "baseline_off_cmd": "cd /repo && cargo test --workspace --no-fail-fast --offline",
            "source_commits": [],
            "add_only": True,
        },
        "engines": [
            {"name": "lean-model+harness", "path": "/verif/lean, /verif/harness, /verif/tool",
             "serves_properties": sorted(CLAIMED),
             "kind_free_text": "Lean 4 model + theorems (lake project, compiled driver) tied to /repo by a differential Rust harness; python orchestration"},
        ],
        "checks": checks,
        "not_applicable": na,
        "notes": "See DESIGN.md. Known findings and repaired defects: KNOWN_FINDINGS.txt.",
    }
    json.dump(m, open(os.path.join(VERIF, "MANIFEST.json"), "w"), indent=1)
    print(f"{len(checks)} checks, {len(na)} not claimed")


if __name__ == "__main__":
    main()
