#!/usr/bin/env python3
"""Regenerate /verif/MANIFEST.json from the table below (keeps it schema-valid at all times)."""
import json
import os

VERIF = os.path.dirname(os.path.dirname(os.path.abspath(__file__)))

TIE = ("Tie to the code: the Lean model is hand-written; on every run the Rust harness (path dependency on /repo, rebuilt from the "
       "working tree) and the compiled Lean driver execute the same generated cases and every difference is reported. "
       "Trusted: Lean kernel (+ propext, Classical.choice, Quot.sound), the harness/driver/comparator, the models of std::io, bstr, "
       "memchr, serde_json, regex, pico_args.")

# id -> (category, text, note, technique, design_ref)
CLAIMED = {}


def claim(pid, category, text, note, technique, ref):
    CLAIMED[pid] = (category, text, note, technique, ref)


claim("C01", "proof",
      "Theorems over the Lean model of cut_str: empty-record and -s rules, order/verbatim rules of the output loop (all inputs, all options). "
      "The end-to-end refinement cutStr = specRecord is not yet a theorem; it is carried by the executed specification used as direct "
      "oracle against the implementation (bounded-exhaustive + random) and by the model correspondence.",
      TIE + " Partial: the splitter refinement lemmas are still open (see Props/C01.lean header).",
      "Lean 4 theorems over a hand-written model + differential correspondence + executed abstract specification as oracle", "§4 C01")

NOT_YET = "check under construction in this session (model, harness and driver exist; the property's check is not registered yet)"


def main():
    props = [json.loads(l)["id"] for l in open(os.path.join(VERIF, "properties.jsonl"))]
    checks = []
    na = []
    for pid in props:
        if pid in CLAIMED:
            cat, text, note, tech, ref = CLAIMED[pid]
            checks.append({
                "property_id": pid,
                "quick_cmd": f"bin/check {pid} --tier quick",
                "thorough_cmd": f"bin/check {pid} --tier thorough",
                "evidence_file": f"/verif/evidence/{pid}.json",
                "replay_cmd_template": f"bin/check {pid} --replay {{path}}",
                "engine": "lean-model+harness",
                "level_claimed": {"category": cat, "text": text, "design_ref": ref},
                "level_note": note,
                "technique": tech,
            })
        else:
            na.append({"property_id": pid, "reason": NOT_YET})
    m = {
        "version": 1,
        "setup_cmd": "bin/setup",
        "hooks": {
            "guard": "tuc_verif",
            "enable": "no source hook is needed: every entry point the checks call is `pub`; the guard name is reserved and unused",
            "baseline_off_cmd": "bin/repo-tests",
            "source_commits": [],
            "add_only": True,
        },
        "engines": [
            {"name": "lean-model+harness", "path": "/verif/lean, /verif/harness, /verif/tool",
             "serves_properties": sorted(CLAIMED),
             "kind_free_text": "Lean 4 model + theorems (lake project, compiled driver) tied to /repo by a differential Rust harness; python orchestration"},
        ],
        "checks": checks,
        "not_applicable": na,
        "notes": "See DESIGN.md. Known findings and repaired defects: KNOWN_FINDINGS.txt.",
    }
    json.dump(m, open(os.path.join(VERIF, "MANIFEST.json"), "w"), indent=1)
    print(f"{len(checks)} checks, {len(na)} not claimed")


if __name__ == "__main__":
    main()
