#!/bin/bash
# tool/confirm_mutant.sh <worktree>: confirm a seeded change: builds, suite passes, demo fails with it and passes without
set -u
W="$1"; cd "$W" || exit 2
export RUST_BACKTRACE=0
git diff --quiet -- src && { echo "no change applied in $W"; }
cargo build --offline 2>&1 | tail -1
t=$(cargo test --offline 2>&1 | grep "^test result" | tr '\n' ' ')
echo "tests(with change): $t"
if [ -f mutant/demo.sh ]; then bash mutant/demo.sh >/dev/null 2>&1; echo "demo with change: exit=$?"; fi
git stash -q; cargo build --offline 2>&1 | tail -1
if [ -f mutant/demo.sh ]; then bash mutant/demo.sh >/dev/null 2>&1; echo "demo without change: exit=$?"; fi
git stash pop -q; 
git apply --check --reverse mutant/patch.diff && echo "patch.diff matches the applied change"
