"""Case builders and evaluators shared by the property checks."""
import os

from common import (VERIF, case_line, cmp_model, parse_result, run_impl, run_model)
from gen import (DELIMS, FALLBACKS, OPEN, all_bounds, alphabet_for, bound_text, bounds_text,
                 bytes_upto, rand_bound, rand_bounds, rand_field_opts, rand_field_record,
                 rand_input, rand_record, segmentations, sides, wellformed_bound)


def normalise_field_case(c):
    """what parse_args would build: -r / --json imply join; --json sets the replacement to ','"""
    if c.get("json"):
        c["r"] = b","
        c["j"] = True
    elif c.get("r") is not None:
        c["j"] = True
    return c


def rand_field_case(rng, eng="str", allow=("g", "p", "t", "s", "j", "r", "z", "fb"), delims=DELIMS,
                    fmt_p=0.3, rich=True, fallback_p=0.25, k=4, nrec=None):
    d = rng.choice(delims)
    o = rand_field_opts(rng, d, allow)
    if o.get("json"):
        o.pop("r", None)
        fmt_p = 0
    bs, bt = rand_bounds(rng, fmt_p=fmt_p, fallback_p=fallback_p, k=k)
    z = o.get("z", False)
    inp = rand_input(rng, d, z, nrec=nrec, rich=rich)
    c = {"kind": "cut", "eng": eng, "d": d, "b": bt, "in": inp}
    c.update(o)
    c["meta"] = {"bounds": bs}
    return normalise_field_case(c)


def nfields(rec, d):
    """number of fields of a record for a plain literal delimiter"""
    if rec == b"":
        return 0
    n = 1
    i = 0
    while True:
        j = rec.find(d, i)
        if j < 0:
            break
        n += 1
        i = j + len(d)
    return n


def split_records(data, eol):
    recs = data.split(eol)
    if recs and recs[-1] == b"":
        recs.pop()
    return recs


def resolve_py(l, r, n):
    def pos(v, dflt):
        if v is None:
            return dflt
        if v == 0 or v > n or v < -n:
            return None
        return v if v > 0 else n + 1 + v
    lo = pos(l, 1)
    hi = pos(r, n)
    if lo is None or hi is None or lo > hi or lo < 1:
        return None
    return lo, hi


def is_nontrivial(res):
    st, out = parse_result(res)
    return st != "ok" or len(out) >= 2


def evaluate(chk, cases, component, spec=True, spec_status_only=False, count=True):
    """Run implementation and model (+spec) on `cases`.
    * direct oracle (when `spec`): implementation vs specification line
    * tie: implementation vs model
    Returns (lines, impl, model)."""
    # a third of the cut cases write through a double that accepts at most 1-3 bytes per `write` call (short writes are legal for
    # any `Write`; stdout's LineWriter does it for real on a large write with a long unterminated tail): `write` for `write_all` shows
    for c in cases:
        if c.get("kind", "cut") == "cut" and "sw" not in c and "wf" not in c and "rf" not in c and chk.rng.random() < 0.33:
            c["sw"] = chk.rng.randint(1, 3)
        # … and a third read through a reader that hands the input over in pieces of 1-5 bytes (every engine reads through BufRead; the
        # model of the engines other than -M does not look at the segmentation at all)
        if (c.get("kind", "cut") == "cut" and "seg" not in c and "rf" not in c and not c.get("M") and c.get("eng") != "stream"
                and chk.rng.random() < 0.33):
            c["seg"] = [chk.rng.randint(1, 5) for _ in range(chk.rng.randint(1, 4))]
            c["cyc"] = True
    lines = [case_line(c) for c in cases]
    impl = run_impl(lines)
    model = run_model(lines)
    for c, l, i, (m, s) in zip(cases, lines, impl, model):
        if count:
            chk.evaluations += 1
            ist = i.split(" ")[0]
            chk.count(f"{component}:{ist}")
            if is_nontrivial(i):
                chk.nontrivial_add(l)
        if spec and s not in ("-", "") and i not in ("badbounds", "inapplicable", "badregex", "reject"):
            ist, iout = parse_result(i)
            sst, sout = parse_result(s)
            bad = False
            if ist in ("panic", "hang", "killed"):
                bad = True
            elif sst == "ok":
                bad = (i != s)
            else:
                bad = (ist != sst) or (not spec_status_only and iout != sout)
            if bad:
                chk.report_oracle(f"{component}: implementation differs from the specification",
                                  {"case": l, "implementation": i, "specification": s, "model": m})
    cmp_model(chk, cases, impl, model, component)
    return lines, impl, model


def load_corpus(prop_id):
    """minimised past failures: /verif/corpus/<id>*.case, one case line per line"""
    d = os.path.join(VERIF, "corpus")
    out = []
    if os.path.isdir(d):
        for f in sorted(os.listdir(d)):
            if f.endswith(".case") and (f.startswith(prop_id) or f.startswith("all")):
                for line in open(os.path.join(d, f)):
                    line = line.strip()
                    if line and not line.startswith("#"):
                        out.append(line)
    return out


def run_corpus(chk, component="corpus", spec=True):
    lines = load_corpus(chk.prop_id)
    if not lines:
        return
    impl = run_impl(lines)
    model = run_model(lines)
    for l, i, (m, s) in zip(lines, impl, model):
        chk.evaluations += 1
        chk.count("corpus")
        chk.nontrivial_add(l)
        ist, _ = parse_result(i)
        if ist in ("panic", "hang", "killed"):
            chk.report_oracle("corpus case panics / hangs", {"case": l, "implementation": i})
        elif spec and l.startswith("parse "):
            import re as _re
            ilist = _re.sub(r"^ok L=[^|]*\|", "ok ", i).split(" fwd=")[0] if i.startswith("ok ") else i
            if ilist != s:
                chk.report_oracle("corpus case: accept/reject or the parsed list differs from the grammar",
                                  {"case": l, "implementation": i, "specification": s})
        elif spec and s not in ("-", "") and i not in ("badbounds", "inapplicable", "badregex", "reject"):
            sst, sout = parse_result(s)
            if (sst == "ok" and i != s) or (sst != "ok" and ist != sst):
                chk.report_oracle("corpus case: implementation differs from the specification",
                                  {"case": l, "implementation": i, "specification": s})
        if m != "unmodelled":
            chk.disagreements_checked += 1
            if i != m:
                chk.report_tie("corpus: implementation and Lean model disagree",
                               {"component": component, "case": l, "implementation": i, "model": m})


def parse_plain_bounds(text):
    """comma list of N, N:M, N:, :M with optional =fallback (no braces) -> [(l, r, fb)] or None"""
    out = []
    for part in text.split(","):
        fb = None
        if "=" in part:
            part, fb = part.split("=", 1)
        try:
            if ":" in part:
                a, b = part.split(":", 1)
                l = int(a) if a else None
                r = int(b) if b else None
            else:
                l = r = int(part)
        except ValueError:
            return None
        out.append((l, r, fb))
    return out


def lines_straddle_with_fallback(c):
    """KNOWN FINDING matcher: -l served one line at a time (all indexes positive, no -m/-p), a closed
    range l ≤ n < r that straddles the end of the input, and a fallback (own or --fallback-oob)."""
    if c.get("eng") not in ("lines", "auto") or c.get("bt") != "l" or c.get("m") or c.get("p"):
        return False
    bs = parse_plain_bounds(c.get("b", ""))
    if not bs:
        return False
    if any((l is not None and l < 0) or (r is not None and r < 0) for l, r, _ in bs):
        return False
    eol = b"\0" if c.get("z") else b"\n"
    n = len(split_records(c.get("in", b""), eol))
    for l, r, fb in bs:
        lo = 1 if l is None else l
        if r is not None and lo <= n < r and (fb is not None or c.get("fb") is not None):
            return True
    return False


# ------------------------------------------------------------------------------------------------
# K-cli: the real binary end to end (argv → stdout, exit status) against the model behind the
# python transcription of parse_args' wiring (default delimiter, implied join, -c / --json
# replacement, line-mode delimiter)


def rand_cli(rng):
    """a random ACCEPTED command line with concrete values, and the equivalent `cut eng=auto` case"""
    mode = rng.choice(["f", "f", "f", "c", "b", "l", None])
    z = rng.random() < 0.2
    eol = b"\0" if z else b"\n"
    argv = []
    c = {"kind": "cut", "eng": "auto", "z": z}
    fmt_ok = True
    js = mode in ("f", "c", None) and rng.random() < 0.15
    if js:
        fmt_ok = False
    bs, bt = rand_bounds(rng, fmt_p=0.3 if fmt_ok else 0, k=4)
    if mode:
        argv += ["-" + mode, bt]
        c["b"] = bt
    else:
        c["b"] = "1:"
    d = None
    if mode in ("f", None):
        if rng.random() < 0.7:
            d = rng.choice([b"-", b"--", b",", "é".encode(), b"ab"])
            argv += ["-d", d.decode()]
        c["d"] = d if d is not None else b"\t"
        c["bt"] = "f"
    elif mode == "l":
        c["d"] = eol
        c["bt"] = "l"
    else:
        c["d"] = b""
        c["bt"] = mode
    repl = None
    nojoin = False
    M = False
    if mode in ("f", None):
        if rng.random() < 0.15 and not js:
            M = True
        if not M:
            for k, fl in (("g", "-g"), ("p", "-p"), ("s", "-s"), ("m", "-m")):
                if rng.random() < 0.2:
                    argv.append(fl)
                    c[k] = True
            if rng.random() < 0.25:
                t = rng.choice(["l", "r", "b", "L", "R", "B"])
                argv += ["-t", t]
                c["t"] = t.lower()
        if rng.random() < 0.25:
            argv.append("-j")
            c["j"] = True
        if not js and rng.random() < 0.25:
            repl = rng.choice([b"/", b"::", b"", c["d"]]) if not M else rng.choice([b"/", c["d"]])
            argv += ["-r", repl.decode()]
    elif mode == "l":
        if rng.random() < 0.2:
            argv.append("--no-join")
            nojoin = True
        if rng.random() < 0.15:
            argv.append("-m")
            c["m"] = True
    elif mode == "c":
        if rng.random() < 0.15:
            argv.append("-m")
            c["m"] = True
    if js:
        argv.append("--json")
        c["json"] = True
        repl = b","
    if mode == "c" and not js:
        repl = b""
    if z:
        argv.append("-z")
    if rng.random() < 0.25:
        v = rng.choice(["", "G", "é"])
        argv += rng.choice([["--fallback-oob", v], ["--fallback-oob=" + v]])
        c["fb"] = v.encode()
    if M:
        # -M needs a 1-byte delimiter, ascending bounds; otherwise the binary rejects: keep only compatible sets
        if (d is not None and len(d) != 1):
            M = False
        else:
            argv += ["-M", rng.choice(["1", "64"])]
            c["M"] = True
            c["b"] = rng.choice(["1", "2", "1,3", "2:3", "2:", "{1}x{2}", "1,2=F"])
            argv[1 if mode else 0:2 if mode else 0] = []
            if mode:
                argv = ["-f", c["b"]] + argv[1:] if argv and argv[0] == "-f" else ["-f", c["b"]] + argv
            else:
                argv = ["-f", c["b"]] + argv
    c["r"] = repl
    c["j"] = bool(c.get("j") or js or repl is not None or (mode == "l" and not nojoin) or mode == "c")
    # input
    if mode == "c":
        recs = ["".join(rng.choice(["a", "é", "😎", " "]) for _ in range(rng.randint(0, 5))).encode() for _ in range(rng.randint(1, 3))]
        inp = eol.join(recs) + eol
    elif mode == "b":
        inp = bytes(rng.choice([0, 10, 97, 255, 45]) for _ in range(rng.randint(0, 8)))
    elif mode == "l":
        ls = [rng.choice([b"a", b"", b"bc"]) for _ in range(rng.randint(1, 5))]
        inp = eol.join(ls) + eol
    else:
        inp = rand_input(rng, c["d"], z, rich=not js)
        if js:
            inp = inp.replace(b"\xff", b"q")
    if rng.random() < 0.06:
        # magic numbers at the very start of the input (byte order marks, #!, gzip, NUL) are data like any other
        magic = rng.choice([b"\xef\xbb\xbf", b"\xef\xbb\xbf", b"\xff\xfe", b"\xfe\xff", b"#!", b"\x1f\x8b", b"\x00", b"\r\n"])
        if mode in ("c", "l") or js:
            magic = b"\xef\xbb\xbf"          # (these modes need valid UTF-8: U+FEFF)
        inp = magic + inp
    c["in"] = inp
    if M:
        c["seg"] = [65536]
    return argv, inp, c


def _fix_M(argv, c):
    """rand_cli's -M rewrite leaves a second -f: keep the first"""
    if not c.get("M"):
        return argv
    rest, skip = [], False
    for i, a in enumerate(argv):
        if skip:
            skip = False
            continue
        if a == "-f" and i > 0:
            skip = True
            continue
        rest.append(a)
    return rest


BIG_SIZES = [1023, 1024, 1025, 4095, 4096, 4097, 8191, 8192, 8193, 65535, 65536, 65537, 70000, 131072, 131073]


def inflate(rng, inp, eol, d):
    """a LARGE input with the structure of the small one: many copies of its records, one field blown up past a buffer size, or the
    small input pushed so that it straddles offset 65536 (main's BufReader refill / BufWriter bypass)"""
    how = rng.choice(["many", "long", "long", "align", "align", "tail"])
    recs = inp.split(eol)
    if how == "many":
        k = rng.choice([3000, 20000, 70000]) // max(1, len(inp)) + 2
        return eol.join(recs[:-1] * k + recs[-1:]) if len(recs) > 1 else inp * k
    if how == "long":
        n = rng.choice(BIG_SIZES)
        filler = rng.choice([b"x", b"xy", "é".encode(), b"x\r"])
        long = (filler * (n // len(filler) + 1))[:n]
        if b"x" in inp and rng.random() < 0.7:
            k = rng.randrange(inp.count(b"x"))
            parts = inp.split(b"x")
            return b"x".join(parts[:k + 1]) + long + b"x".join(parts[k + 1:])
        return long + (d or b"") + inp
    if how == "align":
        off = rng.choice([65536, 131072]) - rng.randint(0, 6)
        pad = rng.choice([b"x", b"y"]) * off
        if rng.random() < 0.5:
            pad = pad[:-len(eol)] + eol            # the small input starts a record of its own near the boundary
        elif d and rng.random() < 0.5:
            pad = pad[:-len(d)] + d                # … or is the tail of a long record, right after a delimiter
        return pad + inp
    # "tail": a large body, then a long unterminated last record (stays in stdout's LineWriter until the final flush)
    body = eol.join(recs[:-1] * (70000 // max(1, len(inp)) + 2)) + eol if len(recs) > 1 else b""
    return body + inp.rstrip(eol) + (d or b"") + b"y" * rng.choice([1, 1023, 1024, 1025, 3000])


def big_io(chk, n, want=None):
    """the real binary (main's 64 KiB BufReader/BufWriter, stdout's LineWriter) against the library run in-process with reads of a few
    bytes and short writes, on LARGE inputs: whatever depends on a buffer size, a refill, a bypassed buffer or an input length shows as
    a difference.  Neither side is the model (its list-based definitions are quadratic in the input length)."""
    from common import build_tuc, run_cli
    tuc = build_tuc(release=True)
    rng = chk.rng
    trip = []
    while len(trip) < n:
        argv, inp, c = rand_cli(rng)
        argv = _fix_M(argv, c)
        if not argv or (want and not want(argv)):
            continue
        eol = b"\0" if c.get("z") else b"\n"
        big = inflate(rng, inp, eol, c.get("d") if c.get("bt", "f") == "f" else None)
        c = dict(c)
        c["in"] = big
        c["seg"] = [rng.choice([1, 2, 3, 7, 64, 997, 4096]) for _ in range(rng.randint(1, 12))]
        c["cyc"] = True
        c["sw"] = rng.choice([1, 2, 3, 1000])
        trip.append((argv, big, c))
    res = run_cli(tuc, [(a, i) for a, i, _ in trip])
    lines = [case_line(c) for _, _, c in trip]
    impl = run_impl(lines)
    for (argv, big, c), (st, out), l, i in zip(trip, res, lines, impl):
        chk.evaluations += 1
        chk.count("big-io:" + c.get("bt", "f") + (":M" if c.get("M") else ""))
        chk.nontrivial_add(("big", tuple(argv), len(big), hash(big)))
        ist, iout = parse_result(i)
        if ist not in ("ok", "fail"):
            chk.count("big-io:library-" + ist.split(" ")[0])
            if ist in ("panic", "hang", "killed"):
                chk.report_oracle("big input: the library panics / hangs in-process", {"argv": argv, "stdin_len": len(big), "case": l[:2000], "implementation": i[:200]})
            continue
        if st not in ("0", "1") or (st == "0") != (ist == "ok") or out != iout:
            k = next((j for j in range(min(len(out), len(iout))) if out[j] != iout[j]), min(len(out), len(iout)))
            chk.report_oracle("large input: the real binary (64 KiB buffers) and the library fed in small pieces print different things",
                              {"argv": argv, "stdin_hex": big.hex(), "binary": [st, len(out)], "library_in_process": [ist, len(iout)],
                               "first_difference_at_output_byte": k, "binary_there": out[max(0, k - 20):k + 20].hex(),
                               "library_there": iout[max(0, k - 20):k + 20].hex(), "case": l if len(l) < 4000 else l[:4000] + "…"})


def py_cut_fields(rec, d, l, r, p=False, m=False, j=False, s=False):
    """a plain python reading of `tuc -d D -f L:R [-p] [-m] [-j] [-s]` on one record (literal delimiter, one bound, no fallback): the bytes printed
    for the record (EOL included), b"" when -s drops it, None when the run fails there"""
    if rec == b"":
        return b"" if s else b"\n"
    if p:
        while d + d in rec:
            rec = rec.replace(d + d, d)
    parts = rec.split(d)
    n = len(parts)
    if s and n == 1:
        return b""
    rr = resolve_py(l, r, n)
    if rr is None:
        return None
    if not m:
        return d.join(parts[rr[0] - 1:rr[1]]) + b"\n"
    pieces = [parts[:rr[0] - 1], parts[rr[1]:]]
    pieces = [d.join(x) for x in pieces if x]
    if not pieces:
        return None
    return (d if j else b"").join(pieces) + b"\n"


def history_cases(rng, tier):
    """records whose field counts DIFFER inside one input (n and n + 2^k: a table, memo or cache keyed by a truncated count), in both orders, and a
    record that makes every scratch buffer grow past 1 MiB followed by short ones (what a buffer keeps — or is shrunk to — after an oversized
    record); general engine and fast lane, -p -m -j -s; expected output from py_cut_fields"""
    cases, exp = [], []
    d = b"-"
    shapes = []
    for k in (8, 9, 16):
        for n1 in (1, 2, 3, 5):
            shapes.append([n1, n1 + 2 ** k])
            shapes.append([n1 + 2 ** k, n1])
            shapes.append([n1, n1 + 2 ** k, n1])
    # (quick tier: every k — 2^8, 2^9, 2^16 — with two of the four small counts)
    shapes = shapes if tier != "quick" else [sh for sh in shapes if min(sh) in (1, 3)]
    for counts in shapes:
        recs = [d.join(rng.choice([b"x", b"y", b"xy"]) for _ in range(n)) for n in counts]
        for (l, r) in [(2, 2), (-1, -1), (2, None), (1, 1)]:
            for m in (False, True):
                for j in (False, True):
                    o = {"m": m, "j": j}
                    outs = [py_cut_fields(x, d, l, r, **o) for x in recs]
                    e = b""
                    for x in outs:
                        if x is None:
                            e = (e, None)
                            break
                        e += x
                    c = {"kind": "cut", "eng": "auto", "d": d, "b": bound_text(l, r, None, l == r), "in": b"\n".join(recs) + b"\n"}
                    if m:
                        c["m"] = True
                    if j:
                        c["j"] = True
                    cases.append(c)
                    exp.append(e)
    sizes = [2 ** 20 + 600] if tier == "quick" else [2 ** 20 - 8, 2 ** 20 + 600, 3 * 2 ** 19, 2 ** 21 + 8]
    for size in sizes:
        big = (b"k" + d) * (size // 2) + b"k"
        bigp = (b"k" + d + d) * (size // 2) + b"k"          # (its COMPRESSED form, `k-k-…`, is what must exceed the size)
        tails = [b"f", b"a-b--c", b"", b"--", b"q-r"]
        for (l, r) in [(1, 1), (2, 2), (-1, -1), (1, None)]:
            for o in ({"p": True}, {"p": True, "s": True}, {"p": True, "j": True}, {}, {"s": True}):
                recs = [bigp if o.get("p") else big] + tails
                outs = [py_cut_fields(x, d, l, r, **o) for x in recs]
                e = b""
                for x in outs:
                    if x is None:
                        e = (e, None)
                        break
                    e += x
                c = {"kind": "cut", "eng": "auto", "d": d, "b": bound_text(l, r, None, l == r), "in": b"\n".join(recs) + b"\n"}
                c.update({k_: True for k_ in o})
                cases.append(c)
                exp.append(e)
    return cases, exp


def count_thresholds(chk, modes):
    """requests that touch the LAST parts of records with n = 2^k-1, 2^k, 2^k+1 parts (k = 4 … 16, and 46341; 15 … 65537 fields, lines, characters or
    bytes — index × count products beyond 2^31 included), answered by a plain python selection: code keyed to a count or a size (a first block of 16 KiB, a Vec that starts at 1024
    entries, an index kept in 8 or 16 bits) shows here.  The model is not involved (it is quadratic in the input length)."""
    rng = chk.rng
    ns = sorted({2 ** k + e for k in range(4, 17) for e in (-1, 0, 1)} | {46341})          # … 65537; 46341² and 65537² leave the i32 range
    small_ns = [n for n in ns if n <= 4097] + rng.sample([n for n in ns if 4097 < n < 60000], 2) + [65537]
    cases, exp = [], []
    for mode in modes:
        # … and past 2^20 (a "large enough" constant standing for "all of them", a capacity above which a buffer is shrunk): one count in the
        # quick tier, four in the thorough one, three requests each
        huge_ns = [2 ** 20 + 1] if chk.tier == "quick" else [2 ** 20 - 1, 2 ** 20, 2 ** 20 + 1, 2 ** 21 + 1]
        for n in (small_ns if (chk.tier == "quick" and mode == "M") else ns) + (huge_ns if mode != "M" else []):
            parts = [rng.choice([b"x", b"y", b"xy"]) if mode != "b" else bytes([rng.choice([0, 10, 97, 255])]) for _ in range(n)]
            if mode in ("f", "M", "json"):
                d, inp = b"-", b"-".join(parts) + b"\n"
            elif mode == "g":
                d, inp = b"--", b"--".join(parts) + b"\n"
            elif mode == "l":
                d, inp = b"\n", b"\n".join(parts) + b"\n"
            elif mode == "c":
                parts = [rng.choice(["a", "é", "😎"]).encode() for _ in range(n)]
                d, inp = b"", b"".join(parts) + b"\n"
            else:
                d, inp = b"", b"".join(parts)
            for l, r in ([(n, n), (n - 1, n - 1), (1, n), (n, None), (-1, -1), (-n, -n), (2, n - 1), (n + 1, n + 1), (n - 2, n), (None, n)] if n < 100000
                         else [(n, n), (-1, -1), (n - 1, None)]):
                if mode == "M" and ((l is not None and l < 0) or (r is not None and r < 0)):
                    continue
                c = {"kind": "cut", "eng": "auto", "d": d, "b": bound_text(l, r, None, l == r), "in": inp}
                if mode == "M":
                    c.update({"M": True, "seg": [rng.choice([1, 7, 64, 1000, 4096])], "cyc": True})
                if mode == "l":
                    c.update({"bt": "l", "j": True})
                if mode == "c":
                    c.update({"bt": "c", "j": True, "r": b""})
                if mode == "b":
                    c["bt"] = "b"
                if mode == "json":
                    c.update({"json": True, "j": True, "r": b","})
                rr = resolve_py(l, r, n)
                if not rr:
                    e = None
                else:
                    sel = parts[rr[0] - 1:rr[1]]
                    if mode == "json":
                        e = b"[" + b",".join(b'"' + x + b'"' for x in sel) + b"]\n"
                    elif mode == "b":
                        e = b"".join(sel)
                    else:
                        e = (b"" if mode == "c" else d).join(sel) + b"\n"
                cases.append(c)
                exp.append(e)
    if "f" in modes or "g" in modes or "json" in modes:
        hc, he = history_cases(rng, chk.tier)
        cases += hc
        exp += he
    lines = [case_line(c) for c in cases]
    impl = run_impl(lines)
    for c, l, i, e in zip(cases, lines, impl, exp):
        chk.evaluations += 1
        chk.count("count-thresholds")
        chk.nontrivial_add(("count", c.get("bt", "f"), len(c["in"]), c["b"], bool(c.get("M")), bool(c.get("json")), c["d"]))
        st, out = parse_result(i)
        if isinstance(e, tuple):
            # a history whose k-th record cannot be resolved: the run fails after the output of the earlier records
            bad = st != "fail" or out != e[0]
            e = None if bad else e
            if bad:
                chk.report_oracle("a run that must fail on a later record (after the output of the earlier ones) does something else",
                                  {"case": l if len(l) < 70000 else l[:70000] + "…", "implementation": i[:300]})
            continue
        bad = st not in ("ok", "fail") or (e is None and st != "fail") or (e is not None and (st != "ok" or out != e))
        if bad:
            short = dict(c)
            chk.report_oracle("a request touching the last parts of a record with 2^k-1 / 2^k / 2^k+1 parts is answered wrongly",
                              {"case": l if len(l) < 70000 else l[:70000] + "…", "parts": len(e or b""), "implementation": i[:300],
                               "expected": ("ok " + e.hex()[:300]) if e is not None else "fail (the bound cannot be resolved)"})


def argv_stream(chk, tuc_binary, n):
    """K-argv: the model of pico_args + parse_args + main's dispatch (Model/Argv.lean, driver kind `argv`) against the real binary on
    random argument vectors: every spelling pico_args accepts (glued / `=` / quoted values, clusters of short flags), values that look
    like options, repeated and unknown arguments, the --fallback-oob corner cases (generator: tool/argv_diff.py)"""
    import subprocess
    import argv_diff
    from common import run_cli, ENV
    rng = chk.rng
    version_text = subprocess.run([tuc_binary, "-V"], stdout=subprocess.PIPE, env=ENV).stdout
    cs = [argv_diff.gen_case(rng) for _ in range(n)]
    real = run_cli(tuc_binary, cs)
    model = argv_diff.run_lean(cs)
    for (argv, stdin), m, (st, so) in zip(cs, model, real):
        chk.evaluations += 1
        v, cls = argv_diff.agree(m, (st, so), version_text)
        chk.count("argv:" + cls)
        if len(argv) >= 2:
            chk.nontrivial_add(("argv", tuple(argv), stdin))
        if st not in ("0", "1"):
            chk.report_oracle("the binary ends with a status other than 0 or 1", {"argv": argv, "stdin_hex": stdin.hex(), "status": st})
        elif v == "DIFF":
            chk.disagreements_checked += 1
            chk.report_tie("K-argv: the binary differs from the model of pico_args + parse_args (Tuc.Model.Argv.parseArgv) and main's dispatch",
                           {"component": "K-argv", "argv": argv, "stdin_hex": stdin.hex(), "binary": [st, so.hex()[:400]], "model": m[:400]})
        elif v == "ok":
            chk.disagreements_checked += 1


def cli_roundtrip(chk, tuc_binary, n, want=None):
    """binary vs model on n random accepted command lines; `want(argv)` filters"""
    from common import run_cli
    rng = chk.rng
    trip = []
    while len(trip) < n:
        argv, inp, c = rand_cli(rng)
        # fix up the -M rewrite (bounds must be the first -f)
        if c.get("M"):
            rest = []
            skip = False
            for i, a in enumerate(argv):
                if skip:
                    skip = False
                    continue
                if a == "-f" and i > 0:
                    skip = True
                    continue
                rest.append(a)
            argv = rest
        if want and not want(argv):
            continue
        trip.append((argv, inp, c))
    res = run_cli(tuc_binary, [(a, i) for a, i, _ in trip])
    # the OPTIMIZED build is what users install: the same command lines through the release binary (no overflow checks, no debug
    # assertions, panic = abort) must give what the debug binary gives
    from common import build_tuc
    other = build_tuc(release="/release/" not in tuc_binary)
    res2 = run_cli(other, [(a, i) for a, i, _ in trip])
    for (argv, inp, c), x, y in zip(trip, res, res2):
        chk.count("cli-roundtrip:two-builds")
        if x != y:
            chk.report_oracle("the release build and the debug build of the same source give different results for the same command line and input",
                              {"argv": argv, "stdin_hex": inp.hex(), os.path.basename(os.path.dirname(tuc_binary)) + "_build": [x[0], x[1].hex()], os.path.basename(os.path.dirname(other)) + "_build": [y[0], y[1].hex()]})
    lines = [case_line(c) for _, _, c in trip]
    model = run_model(lines)
    for (argv, inp, c), (st, out), l, (m, _s) in zip(trip, res, lines, model):
        chk.evaluations += 1
        chk.count("cli-roundtrip")
        chk.nontrivial_add(("cli", tuple(argv), inp))
        if st not in ("0", "1"):
            chk.report_oracle("the binary ends with a status other than 0 or 1", {"argv": argv, "stdin_hex": inp.hex(), "status": st})
            continue
        if m in ("unmodelled", "badbounds", "reject"):
            chk.count("cli-roundtrip:" + m)
            if m in ("badbounds", "reject") and not (st == "1" and out == b""):
                chk.report_tie("K-cli: the model rejects an argv the binary runs", {"component": "K-cli", "argv": argv, "case": l, "binary": [st, out.hex()], "model": m})
            continue
        # direct oracle: the executed specification, when the mode has one (a concrete argv + stdin replay)
        if _s not in ("-", ""):
            sst, sout = parse_result(_s)
            if (sst == "ok" and (st != "0" or sout != out)) or (sst == "fail" and st != "1"):
                # -l has its own oracle (C05: plain bounds, non-degenerate inputs); -M excludes straddling records (C03)
                if c.get("bt") != "l" and not c.get("M"):
                    chk.report_oracle("the binary's output / exit status differ from the specification",
                                      {"argv": argv, "stdin_hex": inp.hex(), "case": l, "binary": [st, out.hex()], "specification": _s})
        mst, mout = parse_result(m)
        chk.disagreements_checked += 1
        if (("0" if mst == "ok" else "1") != st) or mout != out:
            chk.report_tie("K-cli: binary output / exit status differ from the model behind parse_args' wiring",
                           {"component": "K-cli", "argv": argv, "stdin_hex": inp.hex(), "case": l, "binary": [st, out.hex()], "model": m})


def lying_size_stdin(chk, tuc_binary, n, want=None):
    # (one helper process per case: at most 150 alive at a time)
    while n > 0:
        _lying_size_stdin(chk, tuc_binary, min(n, 150), want)
        n -= 150


def _lying_size_stdin(chk, tuc_binary, n, want=None):
    """stdin is a file whose metadata LIES about its content: procfs files report st_size = 0 and have content (`tuc … < /proc/version` is
    ordinary use).  Whatever main or a reader derives from the metadata of stdin (a buffer capacity, a read size, a shortcut for 'empty'
    files) must not change what is cut: the same command line is run with stdin = that file and with stdin = a pipe carrying the same bytes.
    Content we control: /proc/<pid>/environ of a helper process started with one variable (`A=<content>\\0`, st_size 0); plus the kernel's own
    stable files.  n random accepted command lines (cases.rand_cli; `want(argv)` filters), NUL-free inputs."""
    import subprocess
    from concurrent.futures import ThreadPoolExecutor
    from common import ENV
    if not os.path.exists("/proc/self/environ"):
        chk.notes.append("lying-size stdin: no procfs here, scenario skipped")
        return
    rng = chk.rng
    jobs = []           # (argv, path or None, content, helper)
    helpers = []
    stable = [p for p in ("/proc/version", "/proc/filesystems", "/proc/sys/kernel/ostype", "/proc/cmdline") if os.path.exists(p)]
    try:
        while len(jobs) < n:
            argv, inp, c = rand_cli(rng)
            argv = _fix_M(argv, c)
            if not argv or c.get("z") or (want and not want(argv)):
                continue
            if rng.random() < 0.25 and stable:
                path = rng.choice(stable)
                content = open(path, "rb").read()
                jobs.append((argv, path, content))
                continue
            body = inp.replace(b"\0", b"0")
            if c.get("bt") in ("c", "l") or c.get("json"):
                try:
                    body.decode("utf-8")
                except UnicodeDecodeError:
                    continue
            h = subprocess.Popen(["/bin/sleep", "120"], env={b"A": body}, stdin=subprocess.DEVNULL, stdout=subprocess.DEVNULL, stderr=subprocess.DEVNULL)
            helpers.append(h)
            jobs.append((argv, f"/proc/{h.pid}/environ", b"A=" + body + b"\0"))
        import time
        time.sleep(0.05)       # the helpers have exec'd

        def run_one(job):
            argv, path, content = job
            av = [a if isinstance(a, (bytes, str)) else str(a) for a in argv]
            try:
                with open(path, "rb") as f:
                    if f.read() != content:
                        return None        # (the helper has not exec'd yet, or the kernel file changed: nothing to compare)
                with open(path, "rb") as f:
                    a = subprocess.run([tuc_binary] + av, stdin=f, stdout=subprocess.PIPE, stderr=subprocess.DEVNULL, env=ENV, timeout=20)
                b = subprocess.run([tuc_binary] + av, input=content, stdout=subprocess.PIPE, stderr=subprocess.DEVNULL, env=ENV, timeout=20)
            except (OSError, subprocess.TimeoutExpired) as e:
                return ("error", repr(e))
            return (a.returncode, a.stdout, b.returncode, b.stdout)
        with ThreadPoolExecutor(16) as ex:
            results = list(ex.map(run_one, jobs))
    finally:
        for h in helpers:
            h.kill()
        for h in helpers:
            h.wait()
    for (argv, path, content), r in zip(jobs, results):
        if r is None:
            chk.count("lying-size:skipped")
            continue
        chk.evaluations += 1
        chk.count("lying-size-stdin")
        chk.nontrivial_add(("lying-size", tuple(argv), content))
        if r[0] == "error":
            chk.report_oracle("stdin = a procfs file: the binary did not finish", {"argv": argv, "stdin_hex": content.hex(), "error": r[1]})
        elif (r[0], r[1]) != (r[2], r[3]):
            chk.report_oracle("the same bytes on stdin give a different result when stdin is a file that reports size 0 (procfs) than when it is a pipe",
                              {"argv": argv, "stdin_hex": content.hex(), "stdin_as": "a file like " + ("/proc/<pid>/environ" if "environ" in path else path) + " (st_size = 0)",
                               "file": [r[0], r[1].hex()], "pipe": [r[2], r[3].hex()]})
