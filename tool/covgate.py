#!/usr/bin/env python3
"""covgate.py — the coverage gate of the thorough tier (a statement about the TIE, never about the code).

The tie between the Lean model and /repo is differential execution: it sees a change to the code only on the inputs it runs.  This
gate measures, with an instrumented build of the harness (nightly `-C instrument-coverage`), which lines of the library sources the
in-process cases of a property's QUICK generation execute, and compares the unexecuted lines of the property's anchor files with a
committed baseline (coverage-baseline/Cxx.json: the lines known not to be executed on the pinned tree — dead code, `Display`, branches
behind earlier guards — as (file, text of the line), the union over five seeds).  A line that is not executed and is not in the baseline
is code the correspondence has never run against the model: the property is no longer SHOWN to hold for it, which the check reports as a
tie violation ("… no-failing-input-found", the replay file lists the lines).  Typical trigger: a new fast path or threshold branch that
the generated inputs do not reach.

    python3 tool/covgate.py Cxx            # measure and compare (used by check.py in the thorough tier)
    python3 tool/covgate.py --rebase [Cxx…]   # rewrite the baselines from the current tree (seeds 1-5); only ever on the pinned tree

If the nightly toolchain or its llvm tools are missing, or the instrumented build fails, the gate reports itself unavailable and
nothing is concluded."""
import glob
import json
import os
import re
import shutil
import subprocess
import sys

sys.path.insert(0, os.path.dirname(os.path.abspath(__file__)))
import common  # noqa: E402

BASE = os.path.join(common.VERIF, "coverage-baseline")
COV = os.path.join(common.BUILD, "cov")
COVBIN = os.path.join(common.BUILD, "harness-cov", "debug", "tuc-verif-harness")
LIB_FILES = ["src/cut_str.rs", "src/fast_lane.rs", "src/stream.rs", "src/cut_lines.rs", "src/cut_bytes.rs", "src/read_utils.rs", "src/options.rs",
             "src/bounds/userbounds.rs", "src/bounds/userboundslist.rs", "src/bounds/side.rs"]
TRIVIAL = re.compile(r"^[\s{}()\[\];,]*$|^\s*(else|\} else \{|//.*)\s*$")


def tools_dir():
    for t in sorted(glob.glob(os.path.expanduser("~/.rustup/toolchains/nightly-*/lib/rustlib/*/bin/llvm-profdata")), reverse=True):
        return os.path.dirname(t)
    return None


def build_instrumented():
    env = dict(common.ENV, RUSTFLAGS="-C instrument-coverage", CARGO_TARGET_DIR=os.path.join(common.BUILD, "harness-cov"))
    p = subprocess.run(["cargo", "+nightly", "build", "--offline"], cwd=os.path.join(common.VERIF, "harness"), env=env,
                       stdout=subprocess.PIPE, stderr=subprocess.STDOUT, text=True)
    return p.returncode == 0 and os.path.exists(COVBIN), p.stdout[-1500:]


def anchor_files(prop_id):
    for line in open(os.path.join(common.VERIF, "properties.jsonl")):
        d = json.loads(line)
        if d["id"] == prop_id:
            return [f for f in d["anchors"]["files"] if f in LIB_FILES]
    return []


def dump_cases(prop_id, seed, dest):
    """the in-process cases of the property's quick generation (no comparison is made here)"""
    shutil.rmtree(dest, ignore_errors=True)
    os.makedirs(dest, exist_ok=True)
    env = dict(os.environ, VERIF_DUMP_CASES=dest, VERIF_SEED=str(seed), VERIF_NO_COVGATE="1", VERIF_SCRATCH_OUT=os.path.join(COV, "scratch"))
    subprocess.run([sys.executable, os.path.join(common.VERIF, "tool", "check.py"), prop_id, "--tier", "quick"], env=env,
                   stdout=subprocess.DEVNULL, stderr=subprocess.DEVNULL, cwd=common.VERIF)
    return sorted(glob.glob(os.path.join(dest, "*.cases")))


def uncovered(prop_id, seed, tools):
    """-> {file: [stripped text of unexecuted, non-trivial lines outside #[cfg(test)]]} or None when nothing was run"""
    work = os.path.join(COV, prop_id)
    files = dump_cases(prop_id, seed, os.path.join(work, "cases"))
    if not files:
        return None
    prof = os.path.join(work, "prof")
    shutil.rmtree(prof, ignore_errors=True)
    os.makedirs(prof, exist_ok=True)
    procs = []
    for f in files:
        procs.append(subprocess.Popen([COVBIN, "run"], stdin=open(f), stdout=subprocess.DEVNULL, stderr=subprocess.DEVNULL,
                                      env=dict(common.ENV, LLVM_PROFILE_FILE=os.path.join(prof, "%p-%m.profraw"))))
        if len(procs) >= common.NPROC:
            procs.pop(0).wait()
    for p in procs:
        p.wait()
    raws = glob.glob(os.path.join(prof, "*.profraw"))
    if not raws:
        return None
    data = os.path.join(work, "all.profdata")
    subprocess.run([os.path.join(tools, "llvm-profdata"), "merge", "-sparse"] + raws + ["-o", data], check=True,
                   stdout=subprocess.DEVNULL, stderr=subprocess.DEVNULL)
    res = {}
    for rel in anchor_files(prop_id):
        path = os.path.join("/repo", rel)
        if not os.path.exists(path):
            continue
        src = open(path, encoding="utf-8", errors="replace").read().split("\n")
        lim = next((i for i, l in enumerate(src) if re.match(r"\s*mod tests?\b", l)), len(src))
        show = subprocess.run([os.path.join(tools, "llvm-cov"), "show", COVBIN, "-instr-profile=" + data, path],
                              stdout=subprocess.PIPE, stderr=subprocess.DEVNULL, text=True).stdout
        miss = []
        for l in show.split("\n"):
            m = re.match(r"\s*(\d+)\|\s*(\S*)\|(.*)$", l)
            if not m:
                continue
            n, cnt, text = int(m.group(1)), m.group(2), m.group(3)
            if n - 1 >= lim or cnt != "0" or TRIVIAL.match(text):
                continue
            miss.append(text.strip())
        res[rel] = miss
    shutil.rmtree(work, ignore_errors=True)          # case dumps and raw profiles are large: keep nothing
    return res


def gate(prop_id, seed=1):
    """-> dict(status = ok | new-unexecuted-lines | unavailable | not-applicable, new = {file: [lines]})"""
    tools = tools_dir()
    if not tools:
        return {"status": "unavailable", "why": "no nightly llvm tools"}
    if not anchor_files(prop_id):
        return {"status": "not-applicable", "why": "no library source among the property's anchors"}
    bp = os.path.join(BASE, prop_id + ".json")
    if not os.path.exists(bp):
        return {"status": "not-applicable", "why": "no baseline"}
    ok, log = build_instrumented()
    if not ok:
        return {"status": "unavailable", "why": "instrumented build failed: " + log[-300:]}
    un = uncovered(prop_id, seed, tools)
    if un is None:
        return {"status": "not-applicable", "why": "the property's quick generation runs no in-process case"}
    # a second, independent generation: a line counts as unexecuted only if neither run executes it (rarely reached lines must not alarm)
    un2 = uncovered(prop_id, seed + 1000, tools) or {}
    un = {f: [l for l in lines if l in set(un2.get(f, lines))] for f, lines in un.items()}
    base = json.load(open(bp))
    new = {}
    for f, lines in un.items():
        known = set(base.get(f, []))
        fresh = [l for l in lines if l not in known]
        if fresh:
            new[f] = fresh
    # confirmation before anything is reported: three further independent generations — a line is reported only if FIVE generations in a row never
    # execute it (a rarely reached line must not raise an alarm on an unchanged tree; code that no case can reach stays unexecuted however often one looks)
    for extra in (2000, 3000, 4000):
        if not new:
            break
        unx = uncovered(prop_id, seed + extra, tools) or {}
        new = {f: [l for l in lines if l in set(unx.get(f, lines))] for f, lines in new.items()}
        new = {f: v for f, v in new.items() if v}
    return {"status": "new-unexecuted-lines" if new else "ok", "new": new, "unexecuted_now": {f: len(v) for f, v in un.items()},
            "baseline": {f: len(v) for f, v in base.items()}}


def rebase(props):
    tools = tools_dir()
    ok, log = build_instrumented()
    if not tools or not ok:
        sys.exit("cannot build the instrumented harness: " + log)
    os.makedirs(BASE, exist_ok=True)
    for pid in props:
        if not anchor_files(pid):
            continue
        union = {}
        for seed in (1, 2, 3, 4, 5):
            un = uncovered(pid, seed, tools)
            if un is None:
                union = None
                break
            for f, lines in un.items():
                union.setdefault(f, set()).update(lines)
        if union is None:
            print(pid, "runs no in-process case: no baseline")
            continue
        json.dump({f: sorted(v) for f, v in sorted(union.items())}, open(os.path.join(BASE, pid + ".json"), "w"), indent=1)
        print(pid, {f: len(v) for f, v in union.items()})


if __name__ == "__main__":
    if len(sys.argv) > 1 and sys.argv[1] == "--rebase":
        rebase(sys.argv[2:] or ["C%02d" % i for i in range(1, 20)])
    else:
        print(json.dumps(gate(sys.argv[1]), indent=1))
