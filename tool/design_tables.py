#!/usr/bin/env python3
"""refresh the generated tables of DESIGN.md (between BEGIN/END markers) from evidence/ and seeded/"""
import json
import os
import re
import subprocess

V = "/verif"
HEAD = {
    "C01": "general_engine_eq_spec(_of_parsed/_gen): read_and_cut_str = per-record specification, all options, every literal delimiter, every input",
    "C02": "readAndCutFast_eq_readAndCutStr: fast lane = general path incl. early stop, every input",
    "C03": "stream_refines_spec_of_parsed / dispatch_fixedMemory_eq_spec: -M = specification on admissible inputs, every segmentation",
    "C04": "chunk_independent / dispatch_fixedMemory_chunk_independent: all segmentations, all buffer sizes",
    "C05": "fwd_eq_spec, cutLines_eq_specLines, lines_algorithms_agree, readAndCutLines_eq_specLines",
    "C06": "readAndCutBytes_eq_spec: byte mode = specification, every byte string",
    "C07": "utf8Chars_iff, cutStrCore_chars, charRange_valid (+ C07Spec when registered)",
    "C08": "jsonDecodeString_jsonString, json_array_roundtrip, emitRecord_json_decodes (+ C08Spec when registered)",
    "C09": "tryIntoRange_mirror, resolve_mirror, loop-level mirror lemmas (+ C09Runs when registered)",
    "C10": "readAndCutStr_append, readAndCutFast_append, cutBytesStream_append (+ _of_fail), scratch irrelevance",
    "C11": "readAndCutStr_swap, readAndCutFast_swap, cutBytesStream_swap, readAndCutLines_swap, readAndCutStr_swap_chars",
    "C12": "dispatch_no_panic, mainModel_total, parse_total, unpack_length_le, trimStartFuel_fuel",
    "C13": "per-engine rule theorems, unresolvable_iff (+ C13Runs when registered)",
    "C14": "deliver_prefix, deliver_cut_fails, success_complete, read_fault_not_ok, read_fault_prefix, failing_record",
    "C15": "complement_eq_spec, complement_empty_fails (+ C15Runs when registered)",
    "C16": "matcher-parametric gap / literal-replacement lemmas (+ regex refinement when registered); partial by nature",
    "C17": "retained_zero_at_chunk_end, retained_step; measured heap growth; category `other`",
    "C18": "parse_eq_spec: scanner = grammar for every string; accepted_wellformed; never panics",
    "C19": "reject_iff_conflict, accepted_iff_no_conflict, failFirst_iff, implied_join, engine_choice",
}


def status_table():
    out = ["| id | theorems (discharged/obligations) | headline theorems | evaluations (quick) | distinct non-trivial | quick wall s |", "|---|---|---|---|---|---|"]
    for i in range(1, 20):
        pid = "C%02d" % i
        p = os.path.join(V, "evidence", pid + ".json")
        if not os.path.exists(p):
            continue
        e = json.load(open(p))
        c = e["coverage"]
        out.append(f"| {pid} | {c['discharged']}/{c['obligations']} | {HEAD[pid]} | {c['evaluations']} | {c['distinct_nontrivial']} | {e['wall_s']} |")
    return "\n".join(out)


def seeded_table():
    t = subprocess.run(["python3", os.path.join(V, "tool", "seeded_table.py")], stdout=subprocess.PIPE, text=True).stdout
    return t.strip()


def refresh():
    p = os.path.join(V, "DESIGN.md")
    s = open(p).read()
    for name, fn in (("STATUS", status_table), ("SEEDED", seeded_table)):
        b, e = f"<!-- BEGIN:{name} -->", f"<!-- END:{name} -->"
        if b in s and e in s:
            s = s[:s.index(b) + len(b)] + "\n" + fn() + "\n" + s[s.index(e):]
    open(p, "w").write(s)


if __name__ == "__main__":
    refresh()
