#!/usr/bin/env python3
"""bin/check <property> [--tier quick|thorough] [--replay <path>]

Decision rule (DESIGN.md §2.5): build the property's theorems and audit their axioms; rebuild the
harness (and tuc) from /repo's working tree; replay the corpus, generate cases; evaluate the
property's direct oracle on the implementation first (a failure there is a concrete replay), then
the tie implementation = model; write evidence; print VIOLATION / KNOWN-FINDING lines.
"""
import argparse
import importlib
import json
import os
import sys

sys.path.insert(0, os.path.dirname(os.path.abspath(__file__)))

import common  # noqa: E402
from common import BuildError, Check, build_harness, lean_check, log  # noqa: E402
from gen_audit import gen as gen_audit  # noqa: E402


def main():
    ap = argparse.ArgumentParser()
    ap.add_argument("prop")
    ap.add_argument("--tier", default=os.environ.get("VERIF_TIER") or "quick")
    ap.add_argument("--replay", default=None)
    a = ap.parse_args()
    tier = a.tier if a.tier in ("quick", "thorough") else "quick"
    try:
        seed = int(os.environ.get("VERIF_SEED", "1"))
    except ValueError:
        seed = 1
    prop = a.prop.upper()
    mod = importlib.import_module(f"props.{prop.lower()}")
    if a.replay:
        return replay(mod, a.replay)
    chk = Check(prop, tier, seed, level=getattr(mod, "LEVEL", "proof"))
    if os.environ.get("VERIF_SCRATCH_OUT"):
        # a re-run of the generation on behalf of the coverage gate: only the cases matter
        chk.lean = {"obligations": 0, "discharged": 0, "theorems": [], "broken": [], "checker_cmd": "", "build_ok": True, "build_log": ""}
    else:
        gen_audit(prop)
        chk.lean = lean_check(prop, tier)
    try:
        build_harness()
    except BuildError as e:
        chk.report_tie("the harness no longer builds against /repo's working tree", {"theorem_or_component": "build", "log": str(e)})
        sys.exit(chk.finish())
    try:
        mod.run(chk)
        if getattr(mod, "COUNTS", None):
            from cases import count_thresholds
            count_thresholds(chk, mod.COUNTS)
            chk.rule += ("; plus requests touching the last parts of records with 2^k-1, 2^k, 2^k+1 parts (k = 4 … 16; index × count beyond 2^31), answered by a plain python selection")
        if getattr(mod, "BIG_IO", None):
            # large inputs: the real binary against the library fed in small pieces (cases.big_io)
            from cases import big_io
            big_io(chk, 200 if tier == "quick" else 3000, want=mod.BIG_IO)
            chk.rule += ("; plus large inputs (many records, one field of 1 KiB-128 KiB ± 1, the small input pushed across offset 65536/131072, a long "
                         "unterminated tail): the real binary vs the library run in-process with reads of 1-4096 bytes and short writes")
        if getattr(mod, "LYING", None):
            # stdin is a procfs-like file (st_size = 0, content present): same result as through a pipe (cases.lying_size_stdin)
            from cases import lying_size_stdin
            from common import build_tuc
            lying_size_stdin(chk, build_tuc(release=False), 120 if tier == "quick" else 1500, want=mod.LYING)
            chk.rule += "; plus stdin given as a file that reports size 0 yet has content (/proc/<pid>/environ of a helper, kernel files) vs the same bytes through a pipe"
        if tier == "thorough" and not os.environ.get("VERIF_NO_COVGATE"):
            # the coverage gate: code of the property's anchor files that the correspondence never executes (tool/covgate.py)
            import covgate
            g = covgate.gate(prop, seed)
            chk.extra["coverage_gate"] = {k: v for k, v in g.items() if k != "new"} | {"new_unexecuted_lines": g.get("new", {})}
            chk.count("coverage-gate:" + g["status"])
            if g["status"] == "new-unexecuted-lines":
                chk.report_tie("K-coverage: lines of the property's anchor files that no generated case executes and that are not in the committed baseline of "
                               "unexecuted lines — the correspondence between model and code has not run them",
                               {"component": "K-coverage", "theorem_or_component": "K-coverage", "new_unexecuted_lines": g["new"],
                                "how_to_read": "file -> text of the lines; typically a new fast path or threshold branch the generators do not reach"})
    except BuildError as e:
        chk.report_tie("a build needed by the check failed", {"theorem_or_component": "build", "log": str(e)})
    sys.exit(chk.finish())


def replay(mod, path):
    body = json.load(open(path))
    rep = body.get("replay", {})
    lines = []
    for k in ("case", "case_a", "case_b", "case_ab"):
        if k in rep:
            lines.append(rep[k])
    if "cases" in rep:
        lines.extend(rep["cases"])
    print("description:", body.get("description"))
    if not lines:
        print(json.dumps(rep, indent=1))
        return 0
    build_harness()
    common.run_cmd(["lake", "build", "driver"], cwd=common.LEAN)
    impl = common.run_impl(lines)
    model = common.run_model(lines)
    for l, i, (m, s) in zip(lines, impl, model):
        print("case :", l)
        print("impl :", i)
        print("model:", m)
        print("spec :", s)
    return 0


if __name__ == "__main__":
    main()
