#!/bin/bash
# Analysis only (not a check): which lines of /repo/src do the in-process cases of the quick checks execute?
# Builds an instrumented harness with the nightly toolchain, replays every case file the checks generate, and
# prints the uncovered lines of the modelled source files.  Usage: tool/coverage.sh [check ids…]
set -e
cd /verif
CHECKS=${@:-C01 C02 C03 C05 C06 C07 C08 C09 C10 C11 C12 C13 C14 C15 C16 C18}
COV=/verif/.build/cov; rm -rf $COV; mkdir -p $COV/cases $COV/prof
for c in $CHECKS; do VERIF_DUMP_CASES=$COV/cases bin/check $c >/dev/null 2>&1 || true; done
TOOLS=$(dirname $(find ~/.rustup/toolchains/nightly-x86_64-unknown-linux-gnu -name llvm-profdata | head -1))
(cd harness && RUSTFLAGS="-C instrument-coverage" CARGO_TARGET_DIR=/verif/.build/harness-cov cargo +nightly build --offline 2>&1 | tail -1)
BIN=/verif/.build/harness-cov/debug/tuc-verif-harness
ls $COV/cases/*.cases | xargs -P 16 -I{} sh -c "LLVM_PROFILE_FILE=$COV/prof/%p-%m.profraw $BIN run < {} > /dev/null 2>&1 || true"
$TOOLS/llvm-profdata merge -sparse $COV/prof/*.profraw -o $COV/all.profdata
$TOOLS/llvm-cov report $BIN -instr-profile=$COV/all.profdata /repo/src 2>/dev/null | grep -v "help.rs\|prove" 
for f in cut_str fast_lane stream cut_lines cut_bytes read_utils bounds/userbounds bounds/userboundslist bounds/side; do
  echo "== uncovered lines in src/$f.rs (outside #[cfg(test)])"
  $TOOLS/llvm-cov show $BIN -instr-profile=$COV/all.profdata /repo/src/$f.rs 2>/dev/null | awk -F'|' '$2 ~ /^ *0$/ {print $1 "|" $3}' | awk -v lim=$(grep -n "mod tests" /repo/src/$f.rs | head -1 | cut -d: -f1) -F'|' '{gsub(/ /,"",$1); if (lim=="" || $1+0 < lim+0) print}' | head -40
done
