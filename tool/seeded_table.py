#!/usr/bin/env python3
"""print the markdown table of /verif/seeded (which checks catch which seeded changes)"""
import json
import os

root = "/verif/seeded"
print("| seeded change | property | what it needs to manifest | caught by |")
print("|---|---|---|---|")
for name in sorted(os.listdir(root)):
    mp = os.path.join(root, name, "meta.json")
    if not os.path.exists(mp):
        continue
    m = json.load(open(mp))
    needs = m.get("needs_to_manifest", "")
    if needs.startswith("see README"):
        rd = open(os.path.join(root, name, "README.md")).read() if os.path.exists(os.path.join(root, name, "README.md")) else ""
        import re
        chunks = [" ".join(c.split()) for c in re.split(r"\n\s*\n|\n(?=\s*[*-] )", rd)]
        hit = [c for c in chunks if re.search(r"(?i)needed to manifest|what it takes|to manifest|\btrigger|needs\b|requires", c) and not c.startswith("#")]
        needs = (hit[0] if hit else " ".join(rd.split()))
        needs = re.sub(r"^[*-] ", "", needs).replace("**", "")
        needs = needs[:300] + ("…" if len(needs) > 300 else "")
    caught = m.get("caught_by", {})
    if isinstance(caught, dict):
        c = ", ".join(f"{k} ({'tie' if 'tie only' in str(v) else 'replay'})" if "replay" in str(v) or "tie only" in str(v) else k for k, v in sorted(caught.items()))
    else:
        c = ", ".join(caught)
    extra = (" — " + m["strengthening"]) if m.get("strengthening") else ""
    esc = lambda x: x.replace("|", "\\|")
    print(f"| `{name}` | {m['property']} | {esc(needs)} | {esc(c + extra)} |")
