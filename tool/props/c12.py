"""C12 — every invocation terminates with status 0 or 1 — no panic, abort or hang.
The implementation oracle matters most here (panics can hide in code the model abstracts):
 * in-process: UserBoundsList::from_str + every engine under catch_unwind with a watchdog, on ALL
   bounds strings up to a length bound over {1,2,9,-,+,:,=,{,},comma,backslash,a,é} applied to
   fixed probe inputs in every mode;
 * CLI: the debug build (overflow checks; panics exit 101) and the release build (panic=abort) under
   a 10 s timeout and RLIMIT_AS = 1 GiB, argv from the whole option grammar with adversarial value
   pools × adversarial stdin; status must be 0 or 1."""
import resource
import os
import subprocess
import time

from cases import evaluate, run_corpus
from common import ENV, HARNESS_BIN, NPROC, build_tuc, case_line, hx, parse_result
from gen import strings_upto

LEVEL = "proof"
LYING = lambda a: True        # which command lines of cases.rand_cli the lying-size stdin scenario keeps

BOUNDS_POOL = ["1", "2,1", "-1", "1:", ":2", "0", "-0", "+1", "2147483647", "2147483648", "-2147483648", "-2147483649", "99999999999999999999",
               "1:2147483647", "-2147483648:2147483647", "46341=x,46341=y", "65536:32768", "1,1073741824=x", "50000,60000", "{", "}", "{{", "x{{y",
               "{1{2}", "{1}}}", "{}", "{,}", "{1,}", "", " ", "{1}x{2}", "a{1:}b", "{-1}\\n{1}", "=x", ":=x", "1=", "1==", "é", "{1=é}", "1:2:3", "3:1",
               "-1:1", "1:-1", "-5:-1", "1:5=x", "{1:2147483647=}", " "]
DELIMS = ["", "-", "é", "\t", "--", "aba", ",", "\\", "😎"]
REGEXES = ["(", "[", "a**", "", ".*", "x*", "\\b", "(?i)a", "-|,,", "[-,]", "-+", "$", "^", "(?m)^", "\\pL", "é",
           # valid on their own, but not necessarily once main wraps them as "(RE)+": a trailing verbose-mode comment swallows the ")+",
           # nesting at the parser's limit, compiled size near the limit, a trailing flag group, an unclosed verbose class
           "(?x)-#dash", "(?x) - # split on dashes", "(" * 249 + "-" + ")" * 249, "(" * 250 + "-" + ")" * 250, "(?x)#", "(?:a{100}){100}",
           "(?:\\pL{50}){40}", "-(?x)#", "(?x:-)#", "-|(?x)", "\\", "-\\", "(?i)", "-{2}", "-{,2}", "-*?", "(?P<n>-)", "(?P<n>-)(?P<n>,)"]
MVALS = ["0", "1", "64", "18014398509481984", "18446744073709551615", "99999999999999999999999", "-1", "abc", ""]
TRIMS = ["l", "r", "b", "L", "x", ""]
REPLS = ["", "::", "$0", "\\", "/", "é", "-"]
FALLBACKS = ["", "x", "é", "-"]
ALPHA = [b"a", b"-", b"\n", b"\0", b"\r", b"\xff", b"\x80", b'"', b"\\", "é".encode(), "😎".encode(), b"\t", b",", b"b"]


def rand_argv(rng):
    a = []
    mode = rng.choice(["-f", "-f", "-f", "-c", "-b", "-l", None, "--fields", "--characters"])
    if mode:
        a += [mode, rng.choice(BOUNDS_POOL)]
    if rng.random() < 0.5:
        a += ["-d", rng.choice(DELIMS)]
    if rng.random() < 0.2:
        a += ["-e", rng.choice(REGEXES)]
    for fl, p in (("-g", .2), ("-p", .2), ("-s", .15), ("-z", .2), ("-m", .2), ("-j", .2), ("--no-join", .08), ("--json", .15)):
        if rng.random() < p:
            a.append(fl)
    if rng.random() < 0.2:
        a += ["-r", rng.choice(REPLS)]
    if rng.random() < 0.2:
        a += ["-t", rng.choice(TRIMS)]
    if rng.random() < 0.2:
        a += ["--fallback-oob", rng.choice(FALLBACKS)] if rng.random() < 0.8 else ["--fallback-oob=" + rng.choice(FALLBACKS)]
    if rng.random() < 0.15:
        a += ["-M", rng.choice(MVALS)]
    if rng.random() < 0.03:
        a.append(rng.choice(["--bogus", "x", "-", "--", "-Q"]))
    rng.shuffle(a) if rng.random() < 0.05 else None
    if a and rng.random() < 0.04:
        # an argument that is not UTF-8 (argv is bytes on unix): as a value, glued to an option, or on its own
        k = rng.randrange(len(a))
        a[k] = rng.choice([b"\xff", b"\xc3", b"1=\xff", b"-d\xff", b"--fields=\xff\xfe", b"-\xff", b"\xed\xa0\x80"]) if rng.random() < 0.7 else a[k].encode() + b"\xff"
    return a


def rand_stdin(rng):
    k = rng.random()
    if k < 0.05:
        return b""
    if k < 0.1:
        return rng.choice(ALPHA) * 70000 + b"\n"
    n = rng.randint(1, 40)
    return b"".join(rng.choice(ALPHA) for _ in range(n))


def cli_batch(binary, cases, retry=True):
    # the address-space limit is set by the spawner in each child between fork and exec (never on the spawner itself)
    if len(cases) > 3000:
        out = []
        for k in range(0, len(cases), 3000):
            out.extend(cli_batch(binary, cases[k:k + 3000]))
        return out
    lines = []
    for argv, stdin in cases:
        lines.append("a=" + ",".join(hx(x) for x in argv) + " in=" + stdin.hex())
    p = subprocess.run([HARNESS_BIN, "cli", binary, str(NPROC), str(1 << 30)], input=("\n".join(lines) + "\n").encode(), stdout=subprocess.PIPE,
                       stderr=subprocess.DEVNULL, env=ENV)
    out = p.stdout.decode().split("\n")
    res = [(out[i].split(" ")[0] if i < len(out) and out[i] else "missing") for i in range(len(cases))]
    miss = [i for i, r in enumerate(res) if r == "missing"]
    if miss and retry:
        # the spawner itself lost these (killed, out of processes …): once more, on their own, before anything is concluded from them
        for i, r in zip(miss, cli_batch(binary, [cases[i] for i in miss], retry=False)):
            res[i] = r
    return res


def hostile_descriptors(chk):
    modes = {"fast": ["-d", "-", "-f", "1,3"], "general": ["-d", "-", "-g", "-f", "2,1", "-j"], "M": ["-d", "-", "-f", "1,3", "-M", "1"],
             "b": ["-b", "1:"], "l": ["-l", "1:"], "lbuf": ["-l", "-2:"], "c": ["-c", "1:3"], "json": ["-d", "-", "--json", "-f", "1:"],
             "help": ["-h"], "version": ["-V"], "nothing": []}
    big = b"".join(b"aaaa-bbbb-cccc--dddd\n" for _ in range(7000))
    small = b"a-b-c\nd-e-f\n"
    for release in (False, True):
        binary = build_tuc(release=release)
        for name, args in modes.items():
            for data in (small, big):
                for how in ("reader-gone", "dev-full", "stdout-closed", "stdin-closed", "stdin-dir"):
                    try:
                        if how == "reader-gone":
                            p = subprocess.Popen([binary] + args, stdin=subprocess.PIPE, stdout=subprocess.PIPE, stderr=subprocess.DEVNULL, env=ENV)
                            p.stdout.close()
                            try:
                                p.stdin.write(data)
                                p.stdin.close()
                            except (BrokenPipeError, OSError):
                                pass
                            rc = p.wait(timeout=30)
                        elif how == "dev-full":
                            with open("/dev/full", "wb") as f:
                                rc = subprocess.run([binary] + args, input=data, stdout=f, stderr=subprocess.DEVNULL, env=ENV, timeout=30).returncode
                        elif how == "stdout-closed":
                            rc = subprocess.run([binary] + args, input=data, stderr=subprocess.DEVNULL, env=ENV, timeout=30, preexec_fn=lambda: os.close(1)).returncode
                        elif how == "stdin-closed":
                            rc = subprocess.run([binary] + args, stdout=subprocess.DEVNULL, stderr=subprocess.DEVNULL, env=ENV, timeout=30, preexec_fn=lambda: os.close(0)).returncode
                        else:
                            fd = os.open("/", os.O_RDONLY)
                            try:
                                rc = subprocess.run([binary] + args, stdin=fd, stdout=subprocess.DEVNULL, stderr=subprocess.DEVNULL, env=ENV, timeout=30).returncode
                            finally:
                                os.close(fd)
                    except subprocess.TimeoutExpired:
                        rc = "timeout"
                    chk.evaluations += 1
                    chk.count(f"hostile:{how}:{rc}")
                    chk.nontrivial_add(("hostile", release, name, len(data), how))
                    if rc not in (0, 1):
                        chk.report_oracle("with a hostile stdout / stdin the invocation does not end with status 0 or 1 (a negative status is a signal)",
                                          {"argv": args, "stdin_bytes": len(data), "environment": how, "build": "release" if release else "debug", "status": rc})


def run(chk):
    L = 4 if chk.tier == "quick" else 5
    chk.rule = (f"in-process: every bounds string of ≤ {L} symbols over {{1,2,9,-,+,:,=,{{,}},comma,backslash,a,é}} × modes -f(dispatch) -c -b -l -M "
                "--json -m on fixed probe inputs; boundary records (only delimiter bytes) alone and as the 2nd/3rd record after records with several "
                "fields, literal and regex delimiters × subsets of -g -p -s -j -r -t (watchdog 8 s, catch_unwind); CLI: random argv from the whole option grammar with adversarial "
                "value pools (huge/negative/zero indexes, unbalanced/escaped braces, empty strings, multi-byte text, arguments that are not UTF-8, invalid regexes, -M extremes) "
                "× adversarial stdin, on the debug AND the release build under timeout 10 s and RLIMIT_AS 1 GiB; -h / --help / -V / no argument / an unknown argument with stdout on a pseudo-terminal under TERM=xterm-256color, dumb, unset and NO_COLOR (the coloured-help code); non-trivial = argv with ≥ 2 options "
                "or a bounds string of ≥ 2 symbols")
    run_corpus(chk)
    rng = chk.rng
    # ---- in-process
    alpha = list("129-+:={},\\a") + ["é"]
    probes = [b"a-b-c\n\n-x\n", "aé😎\n".encode(), b""]
    cases = []
    strs = list(strings_upto(alpha, L))
    modes = [{"eng": "auto", "d": b"-"}, {"eng": "auto", "d": b"-", "M": True, "seg": [2, 1, 3]}, {"eng": "auto", "bt": "c", "d": b"", "j": True, "r": b""},
             {"eng": "auto", "bt": "b", "d": b""}, {"eng": "auto", "bt": "l", "d": b"\n", "j": True}, {"eng": "str", "d": b"-", "json": True, "j": True, "r": b","},
             {"eng": "str", "d": b"-", "m": True}]
    for k, s in enumerate(strs):
        m = dict(modes[k % len(modes)])
        m.update({"kind": "cut", "b": s, "in": probes[1] if m.get("bt") == "c" else probes[0]})
        cases.append(m)
        if len(s) >= 2:
            chk.nontrivial_add(s)
    for b in BOUNDS_POOL:
        for m in modes:
            for inp in probes:
                c = dict(m)
                c.update({"kind": "cut", "b": b, "in": inp})
                cases.append(c)
    # the scanning loops (trim, greedy, compress, replace) at their boundaries: every record ≤ 6 bytes made of the
    # delimiter's own bytes (plus one other byte) × self-overlapping multi-byte delimiters × -t l|r|b × -g / -p / -r
    from gen import bytes_upto
    for d in (b"--", b"aa", b"aba", b"::", b"-"):
        alpha = sorted(set(bytes([x]) for x in d)) + [b"x"]
        for rec in bytes_upto(alpha, 6 if len(alpha) <= 2 else 5):
            for t in ("l", "r", "b"):
                for extra in ({}, {"g": True}, {"p": True}, {"r": b"/", "j": True}, {"s": True}):
                    c = {"kind": "cut", "eng": "auto", "d": d, "b": ("2", "1:", "-1")[len(rec) % 3], "in": rec + b"\n", "t": t, "fb": b"G"}
                    c.update(extra)
                    cases.append(c)
    # history: the same boundary records as the 2nd / 3rd record of an input whose earlier records have several fields (scratch buffers
    # and field tables are reused from record to record), with literal and regex delimiters and every subset of -g -p -s -j, -r '' / R,
    # -t, and no fallback (a stale range is then used for slicing)
    hist_n = 30000 if chk.tier == "quick" else 300000
    tails = list(bytes_upto([b"-", b",", b"x"], 4))
    for _ in range(hist_n):
        first = rng.choice([b"x-x-x", b"-x--x-", b"xx-x,x-x", b"x", b"x,x"])
        recs = [first] + [rng.choice(tails) for _ in range(rng.randint(1, 2))]
        c = {"kind": "cut", "eng": rng.choice(["auto", "str"]), "d": rng.choice([b"-", b"--", b"-,"]), "b": rng.choice(["2", "1:", "-1", "2:3", "3", "-2"]),
             "in": b"\n".join(recs) + b"\n"}
        if rng.random() < 0.5:
            c["re"] = rng.choice(["-", "-|,", "[-,]", "-+"])
            c["eng"] = "str"
        for k in ("g", "p", "s", "j"):
            if rng.random() < 0.4:
                c[k] = True
        if rng.random() < 0.5:
            c["r"] = rng.choice([b"", b"", b"/", b"-"])
            c["j"] = True
        if rng.random() < 0.5:
            c["t"] = rng.choice(["l", "r", "b"])
        cases.append(c)
    for c in cases[1000:1003]:
        chk.sample(case_line(c))
    lines, impl, model = evaluate(chk, cases, "K-engines", spec=False)
    for l, i in zip(lines, impl):
        st = i.split(" ")[0]
        if st in ("panic", "hang", "killed"):
            chk.report_oracle("an engine panics / hangs / aborts", {"case": l, "implementation": i})
    # ---- the environment-dependent paths: the help texts are coloured (a chain of Regex::new(..).unwrap() / replace_all) only when stdout is
    # a terminal and TERM / NO_COLOR allow it — a pipe never reaches that code
    import pty
    import select
    for release in (False, True):
        binary = build_tuc(release=release)
        for argv in ([], ["-h"], ["--help"], ["-V"], ["-f", "1", "-h"], ["--bogus"]):
            for envx in ({"TERM": "xterm-256color"}, {"TERM": "dumb"}, {}, {"TERM": "xterm", "NO_COLOR": "1"}):
                env = {k: v for k, v in ENV.items() if k not in ("TERM", "NO_COLOR")}
                env.update(envx)
                try:
                    master, slave = pty.openpty()
                except OSError:
                    chk.count("tty:no-pseudo-terminal-available")          # nothing is concluded without one
                    continue
                try:
                    p = subprocess.Popen([binary] + argv, stdin=subprocess.DEVNULL, stdout=slave, stderr=subprocess.DEVNULL, env=env)
                    os.close(slave)
                    got = b""
                    t0 = time.time()
                    while time.time() - t0 < 10:
                        r, _, _ = select.select([master], [], [], 0.2)
                        if r:
                            try:
                                chunk = os.read(master, 65536)
                            except OSError:
                                break
                            if not chunk:
                                break
                            got += chunk
                        elif p.poll() is not None:
                            break
                    try:
                        rc = p.wait(timeout=10)
                    except subprocess.TimeoutExpired:
                        p.kill()
                        rc = "timeout"
                finally:
                    os.close(master)
                chk.evaluations += 1
                chk.count("tty:" + str(rc))
                chk.nontrivial_add(("tty", release, tuple(argv), tuple(sorted(envx.items()))))
                want = 1 if argv == ["--bogus"] else 0
                if rc != want or (want == 0 and b"tuc" not in got):
                    chk.report_oracle("with stdout on a terminal the invocation does not end with the expected status / prints no help",
                                      {"argv": argv, "env": envx, "stdout_is_a_tty": True, "build": "release" if release else "debug", "status": rc,
                                       "stdout_hex": got[:400].hex()})
    # ---- hostile descriptors: the reader of stdout is gone (EPIPE — a process that restores SIGPIPE's default action is KILLED here), stdout is
    # /dev/full or closed, stdin is closed or a directory; small outputs (fail in the final flush) and outputs larger than every buffer
    hostile_descriptors(chk)
    # ---- CLI
    n = 3000 if chk.tier == "quick" else 40000
    cli_cases = [(rand_argv(rng), rand_stdin(rng)) for _ in range(n)]
    for argv, stdin in cli_cases[:3]:
        chk.sample({"argv": argv, "stdin_hex": stdin.hex()[:120]})
    from cases import argv_stream
    argv_stream(chk, build_tuc(release=False), 10000 if chk.tier == "quick" else 100000)
    for release in (False, True):
        binary = build_tuc(release=release)
        sts = cli_batch(binary, cli_cases)
        for (argv, stdin), st in zip(cli_cases, sts):
            chk.evaluations += 1
            chk.count(("release:" if release else "debug:") + st)
            if len(argv) >= 3:
                chk.nontrivial_add((release, tuple(argv), stdin[:50]))
            if st not in ("0", "1"):
                chk.report_oracle(f"the {'release' if release else 'debug'} binary ends with {st} instead of status 0 or 1",
                                  {"argv": argv, "stdin_hex": stdin.hex()[:4000], "stdin_len": len(stdin), "status": st, "build": "release" if release else "debug"})
