"""C03 — -M computes the same cut as line-at-a-time mode.
Oracle: read_and_cut_bytes_stream vs read_and_cut_str on the same Opt, on inputs where every
requested range is wholly present or wholly absent in every record (the statement's own side
condition); straddling records are still compared with the model."""
from cases import evaluate, run_corpus, nfields, split_records, parse_plain_bounds
from common import case_line
from gen import bytes_upto

LEVEL = "proof"
COUNTS = ["M"]        # modes of cases.count_thresholds
BIG_IO = lambda a: "-M" in a        # which command lines of cases.rand_cli the large-input stream keeps

BOUNDS = ["1", "2", "3", "1,2", "1:2", "2:3", "1,3", "2:", "1:", "1,2:", "{1}Z", "A{2}", "{1}x{2}", "{1}x{2}y",
          "1=F", "2=F", "3=F,4=G", "1,2=F", "{2:}x", "{1:2}x{3}", "1:2,4", "x{1,2}y", "1,2,3", "2,3=F", "3:", "{3:=F}z",
          "{1}\\n{2}", "{{{1}}}", "4:5=F"]


def plain_of(b):
    """bounds of a (possibly formatted) bounds string as [(l, r, fb)]"""
    import re
    if "{" in b:
        inner = re.findall(r"(?<!\{)\{([^{}]*)\}", b.replace("{{", "").replace("}}", ""))
        b = ",".join(inner)
    return parse_plain_bounds(b)


def admissible(inp, eol, d, bounds):
    for rec in split_records(inp, eol):
        n = nfields(rec, d)
        if n == 0:
            continue
        for l, r, _ in bounds:
            lo = 1 if l is None else l
            if r is not None and lo <= n < r:
                return False
    return True


def past_u32_record(chk):
    """thorough tier only: a RECORD of 2^32 bytes (and one byte more) through `-M` on the real release binary — the engine keeps counters and flags,
    not data, across reads; a byte counter narrower than usize, or a length cast to u32, shows only here (debug builds panic, release builds wrap).
    Expected outputs are known in advance: the record has no delimiter (so field 2 is absent) or is one field."""
    import subprocess
    from common import build_tuc, ENV
    tuc = build_tuc(release=True)
    for n in (4294967296, 4294967297):
        for pre, args, want in ((b"", ["-M", "1", "-d", ",", "-f", "{2=none}"], b"none\n"),
                                (b"x,y\\n", ["-M", "64", "-d", ",", "-f", "[{2=none}]"], b"[y]\n[none]\n")):
            argv = " ".join("'" + a + "'" for a in args)
            cmd = f"(printf '{pre.decode()}'; head -c {n} /dev/zero | tr '\\0' a) | {tuc} {argv} | head -c 100; st=${{PIPESTATUS[1]}}; echo; echo status=$st"
            p = subprocess.run(["bash", "-c", cmd], stdout=subprocess.PIPE, stderr=subprocess.DEVNULL, env=ENV, timeout=3600)
            chk.evaluations += 1
            chk.count("record-past-u32")
            chk.nontrivial_add(("past-u32", n, tuple(args)))
            got = p.stdout
            if not got.startswith(want + b"\nstatus=0"):
                chk.report_oracle("-M on a last record of 2^32 bytes (no final EOL) does not print what the same cut prints without -M",
                                  {"shell": cmd, "expected": (want + b"\nstatus=0").decode(), "got": got[:200].decode("latin-1")})


def run(chk):
    if chk.tier == "thorough":
        past_u32_record(chk)
    chk.rule = ("-M-compatible option sets (1-byte delimiter, ascending non-repeated bounds incl. one trailing open range, per-bound "
                "and generic fallbacks, format text, -j, 1-byte -r, -z); inputs ≤ L bytes over {a,b,d,EOL,CR} exhaustively under a "
                "one-segment, a one-byte and a random segmentation, plus random longer inputs with fields larger than the segments; "
                "oracle only on admissible inputs (each range wholly present or absent per record); non-trivial = selects a byte or fails")
    run_corpus(chk)
    rng = chk.rng
    L = 5 if chk.tier == "quick" else 6
    S, G, meta = [], [], []
    optsets = [{}, {"j": True}, {"j": True, "r": b"/"}, {"fb": b"G"}, {"z": True}]
    for inp0 in bytes_upto([b"a", b"-", b"\n", b"b"], L):
        for b in BOUNDS:
            for o in optsets:
                z = o.get("z", False)
                inp = inp0.replace(b"\n", b"\0") if z else inp0
                n = len(inp)
                segsl = [[n]] if n <= 1 else [[n], [1] * n, [rng.randint(1, n) for _ in range(n)]]
                for segs in segsl:
                    c = {"kind": "cut", "eng": "stream", "d": b"-", "b": b, "in": inp, "seg": segs}
                    c.update(o)
                    if o.get("r") is not None:
                        c["j"] = True
                    S.append(c)
                    g = dict(c)
                    g["eng"] = "str"
                    g.pop("seg")
                    G.append(g)
                    meta.append((b, b"\0" if z else b"\n"))
    # random longer inputs, small segments
    cnt = 4000 if chk.tier == "quick" else 60000
    for _ in range(cnt):
        z = rng.random() < 0.2
        eol = b"\0" if z else b"\n"
        recs = []
        for _ in range(rng.randint(1, 4)):
            nf = rng.randint(1, 6)
            recs.append(b"-".join(bytes(rng.choice(b"abc\r") for _ in range(rng.choice([0, 1, 3, 9, 40]))) for _ in range(nf)))
        inp = eol.join(recs) + (eol if rng.random() < 0.7 else b"")
        b = rng.choice(BOUNDS)
        n = len(inp)
        segs = [rng.choice([1, 2, 3, 7, 16]) for _ in range(n)]
        c = {"kind": "cut", "eng": "stream", "d": b"-", "b": b, "in": inp, "seg": segs, "z": z}
        if rng.random() < 0.4:
            c["j"] = True
        if rng.random() < 0.2:
            c["r"] = b"/"
            c["j"] = True
        if rng.random() < 0.3:
            c["fb"] = b"G"
        S.append(c)
        g = dict(c)
        g["eng"] = "str"
        g.pop("seg")
        G.append(g)
        meta.append((b, eol))
    for c in S[1000:1003] + S[-2:]:
        chk.sample(case_line(c))
    ls, si, _ = evaluate(chk, S, "K-stream", spec=False)
    lg, gi, _ = evaluate(chk, G, "K-general", spec=True, count=False)
    for c, a, b, la, lb, (bt, eol) in zip(S, si, gi, ls, lg, meta):
        if a in ("inapplicable", "badbounds"):
            chk.count("skipped:" + a)
            continue
        bs = plain_of(bt)
        if bs is None or not admissible(c["in"], eol, b"-", bs):
            chk.count("straddling(model only)")
            continue
        chk.count("admissible")
        if a != b:
            chk.report_oracle("-M output differs from the output without -M on an admissible input",
                              {"case": la, "case_b": lb, "with_M": a, "without_M": b})
