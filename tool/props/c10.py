"""C10 — records are cut independently of one another.
Oracle: implementation on A, on B and on A‖B (A ends with an EOL): out(A‖B) = out(A) ++ out(B); if A
fails, A‖B fails with exactly the same output.  Also cut_str with dirty scratch buffers."""
from cases import evaluate, rand_field_case, run_corpus, normalise_field_case
from common import case_line, parse_result
from gen import rand_input, rand_bounds, DELIMS

LEVEL = "proof"
COUNTS = ["f"]        # modes of cases.count_thresholds (with the multi-count / oversized-record histories of cases.history_cases)
BIG_IO = lambda a: "-b" not in a        # which command lines of cases.rand_cli the large-input stream keeps


def _run_once(chk):
    chk.rule = ("record-oriented modes (-f general path, fast path, dispatch; -c; --json; -M with random segmentation): random A (1-3 records "
                "ending with EOL, incl. empty records, records that use fallbacks / the early stop / fail) and B; triples A, B, A‖B; plus "
                "cut_str called directly with dirty scratch buffers (ranges and bytes left by another record, longer and shorter); "
                "non-trivial = selects a byte or fails")
    run_corpus(chk)
    rng = chk.rng
    n = 15000 if chk.tier == "quick" else 150000
    A, B, AB = [], [], []
    for i in range(n):
        mode = ("str", "fast", "auto", "stream", "chars", "json", "regex")[i % 7]
        if mode in ("str", "json"):
            c = rand_field_case(rng, eng="str", allow=("g", "p", "t", "s", "j", "r", "z", "fb", "m") + (("json",) if mode == "json" else ()))
            if mode == "json":
                c["json"] = True
                c.pop("r", None)
                bs, bt = rand_bounds(rng, fmt_p=0)
                c["b"] = bt
                normalise_field_case(c)
        elif mode in ("fast", "auto"):
            c = rand_field_case(rng, eng=mode, allow=("t", "s", "j", "z", "fb"), delims=[b"-", b","])
        elif mode == "regex":
            # -e: the record is rewritten (-p -r R, R possibly EMPTY: a record made of delimiters only becomes the empty line AFTER the emptiness
            # test) and split by another code path; the scratch vectors are the same ones
            bs, bt = rand_bounds(rng, fmt_p=0.2)
            c = {"kind": "cut", "eng": rng.choice(["str", "auto"]), "d": b"\t", "re": rng.choice(["-", "[-,]", "-+", ",|-"]), "b": bt, "z": rng.random() < 0.2}
            for k_ in ("g", "s", "m"):
                if rng.random() < 0.25:
                    c[k_] = True
            if rng.random() < 0.3:
                c["t"] = rng.choice(["l", "r", "b"])
            if rng.random() < 0.6:
                c["r"] = rng.choice([b"", b"", b"/", b"::", b"-"])
                c["p"] = rng.random() < 0.7
            if rng.random() < 0.4:
                c["fb"] = b"G"
            normalise_field_case(c)
        elif mode == "stream":
            c = rand_field_case(rng, eng="stream", allow=("j", "z", "fb"), delims=[b"-"], fmt_p=0.3)
            c["b"] = rng.choice(["1", "2", "1,3", "2:3", "2:", "{1}x{2}", "1,2=F", "3=F", "1:2,4"])
        else:
            z = rng.random() < 0.3
            bs, bt = rand_bounds(rng, fmt_p=0.2)
            c = {"kind": "cut", "eng": "str", "bt": "c", "d": b"", "b": bt, "z": z, "j": True, "r": b""}
            if rng.random() < 0.3:
                c["fb"] = b"G"
        z = c.get("z", False)
        eol = b"\0" if z else b"\n"
        d = c.get("d") or b"-"
        if mode == "chars":
            def rec():
                return "".join(rng.choice(["a", "é", "€", "😎", " "]) for _ in range(rng.randint(0, 4))).encode()
            a = b"".join(rec() + eol for _ in range(rng.randint(1, 3)))
            b = eol.join(rec() for _ in range(rng.randint(0, 2)))
        elif mode == "regex":
            def rrec():
                return b"".join(rng.choice([b"a", b"b", b"-", b"-", b"--", b",", b""]) for _ in range(rng.randint(0, 5)))
            a = b"".join(rrec() + eol for _ in range(rng.randint(1, 3)))
            b = eol.join(rrec() for _ in range(rng.randint(0, 2)))
        else:
            a = rand_input(rng, d, z, nrec=rng.randint(1, 3), rich=False)
            if not a.endswith(eol):
                a += eol
            b = rand_input(rng, d, z, nrec=rng.randint(0, 2), rich=False)
        ca, cb, cab = dict(c), dict(c), dict(c)
        ca["in"], cb["in"], cab["in"] = a, b, a + b
        if mode == "stream":
            for x in (ca, cb, cab):
                x["seg"] = [rng.randint(1, 5) for _ in range(len(x["in"]))]
        A.append(ca)
        B.append(cb)
        AB.append(cab)
    for c in AB[:4]:
        chk.sample(case_line(c))
    la, ia, _ = evaluate(chk, A, "K-engines", spec=False)
    lb, ib, _ = evaluate(chk, B, "K-engines", spec=False, count=False)
    lab, iab, _ = evaluate(chk, AB, "K-engines", spec=False, count=False)
    for x, y, xy, a, b, ab in zip(la, lb, lab, ia, ib, iab):
        if a in ("inapplicable", "badbounds"):
            continue
        sa, oa = parse_result(a)
        sb, ob = parse_result(b)
        sab, oab = parse_result(ab)
        chk.count("A:" + sa)
        if sa == "ok":
            ok = (sab == sb and oab == oa + ob)
        else:
            ok = (ab == a)
        if not ok:
            chk.report_oracle("output for A‖B is not output(A) followed by output(B)",
                              {"case_a": x, "case_b": y, "case_ab": xy, "A": a, "B": b, "AB": ab})
    # dirty scratch
    S = []
    for _ in range(n // 3):
        c = rand_field_case(rng, eng="cutstr", allow=("g", "p", "t", "s", "j", "r", "fb", "m"), nrec=1)
        c["in"] = c["in"].rstrip(b"\n")
        c["sf"] = ",".join(f"{a}:{a + rng.randint(0, 9)}" for a in (rng.randint(0, 30) for _ in range(rng.randint(0, 6)))) or "-"
        c["sb"] = bytes(rng.choice(b"-xy") for _ in range(rng.randint(0, 12)))
        S.append(c)
        d = dict(c)
        d["sf"] = "-"
        d["sb"] = b""
        S.append(d)
    ls, si, _ = evaluate(chk, S, "K-cutstr", spec=True)
    for k in range(0, len(S), 2):
        if si[k] != si[k + 1]:
            chk.report_oracle("cut_str depends on what the scratch buffers held",
                              {"case": ls[k], "case_b": ls[k + 1], "dirty": si[k], "clean": si[k + 1]})


def cli_append(chk):
    """the real binary: out(A‖B) = out(A) out(B) on accepted random command lines — B may start with anything, a byte order mark or another
    magic number included (whatever main does to stdin before the cutters see it must not depend on the position in the stream)"""
    from cases import rand_cli, _fix_M
    from common import build_tuc, run_cli
    rng = chk.rng
    tuc = build_tuc(release=False)
    trip = []
    while len(trip) < (400 if chk.tier == "quick" else 2500):
        argv, a, c = rand_cli(rng)
        argv = _fix_M(argv, c)
        if not argv or c.get("bt") in ("b", "l") or "--json" in argv and False:
            continue                      # -b and -l are not record-wise
        eol = b"\0" if c.get("z") else b"\n"
        if not a.endswith(eol):
            a += eol
        _argv2, b, _c2 = rand_cli(rng)
        if c.get("bt") == "c" or c.get("json"):
            try:
                b.decode("utf-8")
            except UnicodeDecodeError:
                b = b"ab" + eol
        if rng.random() < 0.5:
            b = rng.choice([b"\xef\xbb\xbf", b"\xef\xbb\xbf", b"#!", b"\xff\xfe"] if c.get("bt") != "c" and not c.get("json") else [b"\xef\xbb\xbf"]) + b
        trip.append((argv, a, b))
    ra = run_cli(tuc, [(v, a) for v, a, _ in trip])
    rb = run_cli(tuc, [(v, b) for v, _, b in trip])
    rab = run_cli(tuc, [(v, a + b) for v, a, b in trip])
    for (argv, a, b), (sa, oa), (sb, ob), (sab, oab) in zip(trip, ra, rb, rab):
        chk.evaluations += 1
        chk.count("cli-append:" + sa)
        chk.nontrivial_add(("cli-append", tuple(argv), a, b))
        if sa == "0":
            ok = sab == sb and oab == oa + ob
        else:
            ok = (sab, oab) == (sa, oa)
        if not ok:
            chk.report_oracle("CLI: output for A‖B is not output(A) followed by output(B)",
                              {"argv": argv, "A_hex": a.hex(), "B_hex": b.hex(), "out_A": [sa, oa.hex()], "out_B": [sb, ob.hex()], "out_AB": [sab, oab.hex()]})


def run(chk):
    cli_append(chk)
    # thorough = several independent rounds of the same generators (the PRNG keeps advancing), so that memory stays bounded
    for _round in range(1 if chk.tier == "quick" else 6):
        _run_once(chk)
