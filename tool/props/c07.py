"""C07 — character mode cuts by Unicode scalar value and never splits one.
Oracle: implementation (read_and_cut_str with the RegexBag main builds for -c) vs the executed
specification over `utf8Chars`; independent check that the output decodes as UTF-8.  This also
validates the model of the regex `\\b|\\B` (every scalar boundary) against the real engine."""
from cases import evaluate, run_corpus, normalise_field_case, cli_roundtrip
from common import build_tuc
from common import case_line, parse_result
from gen import medium_run, rand_bounds

LEVEL = "proof"
LYING = lambda a: "-c" in a        # which command lines of cases.rand_cli the lying-size stdin scenario keeps
COUNTS = ["c"]        # modes of cases.count_thresholds
BIG_IO = lambda a: "-c" in a        # which command lines of cases.rand_cli the large-input stream keeps
CHARS = ["a", " ", "é", "€", "😎", "́", "-", "Z", " ", "中"]
# the first and last scalar of every UTF-8 length class and of every lead-byte class with its own rule (C2, DF, E0, E1, ED, EE, EF, F0, F1, F4)
EDGES = ["\x7f", "\x80", "\u07ff", "\u0800", "\u0fff", "\u1000", "\ud7ff", "\ue000", "\ufffd", "\uffff", "\U00010000", "\U0003ffff", "\U00040000", "\U0010ffff", "\r", "\u010a", "\u0100", "\u4e0a", "\u4e00"]


def _run_once(chk):
    chk.rule = ("valid UTF-8 records of 0-6 scalars from {a, space, é, €, 😎, U+0301, -, Z, NBSP, 中} (1-4 byte encodings, combining mark; in 40 % of the cases also the first / last scalar of every UTF-8 length and lead-byte class: U+7F U+80 U+7FF U+800 U+FFF U+1000 U+D7FF U+E000 U+FFFD U+FFFF U+10000 U+3FFFF U+40000 U+10FFFF, "
                "characters next to word boundaries), 1-3 records, -z, bounds with sides in ±5/open, plain or formatted, fallbacks; "
                "dispatch as main does; non-trivial = selects a character or fails")
    run_corpus(chk)
    rng = chk.rng
    cases = []
    n = 40000 if chk.tier == "quick" else 400000
    for _ in range(n):
        z = rng.random() < 0.25
        eol = b"\0" if z else b"\n"
        pool = CHARS + EDGES if rng.random() < 0.4 else CHARS
        recs = ["".join(rng.choice(pool) for _ in range(rng.randint(0, 6))) for _ in range(rng.randint(1, 3))]
        if rng.random() < 0.03:
            recs[0] += "".join(medium_run(rng, CHARS))          # a record of 15-513 characters
        inp = eol.join(r.encode() for r in recs) + (eol if rng.random() < 0.7 else b"")
        bs, bt = rand_bounds(rng, fmt_p=0.3, k=5)
        c = {"kind": "cut", "eng": rng.choice(["str", "auto"]), "bt": "c", "d": b"", "b": bt, "in": inp, "z": z, "j": True, "r": b""}
        if rng.random() < 0.2:
            c["fb"] = rng.choice([b"G", "é".encode()])
        if rng.random() < 0.15:
            c["m"] = True
        if rng.random() < 0.1:
            c["t"] = rng.choice(["l", "r", "b"])
        cases.append(c)
    for c in cases[:4]:
        chk.sample(case_line(c))
    lines, impl, _ = evaluate(chk, cases, "K-chars", spec=True)
    # the regex bag itself is built by main (src/bin/tuc.rs): the real binary, end to end, on -c command lines
    cli_roundtrip(chk, build_tuc(release=False), 3000 if chk.tier == "quick" else 30000, want=lambda a: "-c" in a)
    for l, i in zip(lines, impl):
        st, out = parse_result(i)
        if st in ("ok", "fail"):
            try:
                out.decode("utf-8")
            except UnicodeDecodeError:
                chk.report_oracle("character mode produced output that is not valid UTF-8 from valid input",
                                  {"case": l, "implementation": i})


def run(chk):
    # thorough = several independent rounds of the same generators (the PRNG keeps advancing), so that memory stays bounded
    for _round in range(1 if chk.tier == "quick" else 6):
        _run_once(chk)
