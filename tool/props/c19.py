"""C19 — contradictory or unsupported option sets are rejected up front, others accepted.
Observed: exit status and stdout of the real binary for each option set, on the empty input and
on a probe derived from the option set (three records of four parts joined by the effective
delimiter) on which every bounds list of the pool resolves.  Compared with the model's `decision`
(tie) and with the statement's `conflict` table evaluated in Python (direct oracle)."""
import itertools

from cases import cli_roundtrip
from common import build_tuc, run_cli, run_model, case_line

LEVEL = "proof"

BOUNDS = {"asc": ("1,2", False, True), "desc": ("2,1", False, False), "fmt": ("x{1}y{2}", True, True), "share": ("1:2,2", False, False)}


def conflict(F):
    isF = F["mode"] in ("f", "dflt")
    return bool((F["j"] and F["nj"]) or (F["nj"] and (F["json"] or F["r"] != "absent" or F["mode"] == "c"))
                or (F["r"] != "absent" and F["json"])
                or (F["json"] and (F["mode"] in ("b", "l") or F["fmt"]))
                or F["M"] == "zero"
                or (F["M"] == "pos" and (F["d"] == "other" or F["r"] == "other" or not F["fwd"] or F["g"] or F["p"] or F["m"]
                                         or F["t"] or F["s"] or F["e"] or F["json"] or F["mode"] in ("c", "b", "l")))
                or (F["d"] != "absent" and not isF) or (F["e"] and F["mode"] == "c") or F["extra"])


def fails_first(F):
    isF = F["mode"] in ("f", "dflt")
    return bool(F["e"] and isF and (F["j"] or F["p"]) and F["r"] == "absent" and not F["json"])


def groups(F):
    """argv as a list of groups (an option with its value), so that orderings can be permuted"""
    g = []
    if F["mode"] != "dflt":
        g.append(["-" + F["mode"], BOUNDS[F["bk"]][0]])
    if F["d"] != "absent":
        g.append(["-d", "--" if F["d"] == "other" else "-"])
    if F["e"]:
        g.append(["-e", "[-]"])
    for k, fl in (("g", "-g"), ("p", "-p"), ("s", "-s"), ("z", "-z"), ("m", "-m"), ("j", "-j"), ("nj", "--no-join"), ("json", "--json")):
        if F[k]:
            g.append([fl])
    if F["r"] != "absent":
        # representative values: a 2-byte text, "/", or — for a third of the sets — exactly the effective delimiter
        one = "/"
        if F.get("r_eq_d"):
            one = "-" if F["d"] == "one" else ("\t" if F["d"] == "absent" else "/")
        g.append(["-r", ("--" if (F.get("r_eq_d") and F["d"] == "other") else "::") if F["r"] == "other" else one])
    if F["t"]:
        g.append(["-t", "b"])
    if F["fb"]:
        g.append(["--fallback-oob", "G"])
    if F["M"] != "absent":
        g.append(["-M", "0" if F["M"] == "zero" else "1"])
    if F["extra"]:
        g.append(["--bogus"])
    return g


def probe(F):
    D = b"\t"
    if F["d"] != "absent":
        D = b"--" if F["d"] == "other" else b"-"
    if F["e"] or F["mode"] in ("c", "b", "l"):
        D = b"-"
    eol = b"\0" if F["z"] else b"\n"
    return eol.join(D.join([b"a", b"b", b"c", b"d"]) for _ in range(3)) + eol


def space(rng):
    for mode in ("f", "c", "b", "l", "dflt"):
        for bk in (["asc"] if mode == "dflt" else ["asc", "desc", "fmt", "share"]):
            for d in ("absent", "one", "other"):
                for r in ("absent", "one", "other"):
                    for M in ("absent", "zero", "pos"):
                        # -z and --fallback-oob are proved irrelevant to the decision (decision_ignores_z_fallback) and an unknown
                        # argument rejects whatever else is given: they are drawn per set instead of multiplying the space by 8
                        for bits in itertools.product((False, True), repeat=9):
                            e, g, p, s, m, j, nj, json, t = bits
                            z, fb, extra = rng.random() < 0.3, rng.random() < 0.3, rng.random() < 0.05
                            txt, fmt, fwd = BOUNDS[bk]
                            if mode == "dflt":
                                fmt, fwd = False, True
                            yield dict(mode=mode, bk=bk, d=d, r=r, M=M, e=e, g=g, p=p, s=s, z=z, m=m, j=j, nj=nj, json=json, t=t, fb=fb,
                                       extra=extra, fmt=fmt, fwd=fwd, r_eq_d=rng.random() < 0.34)


def m_bounds_part(chk, tuc):
    """-M and the bounds list: every list of 1-3 bounds with sides in {open, 1, 2, 3, -1} (+ formatted variants) — rejected up front
    iff not strictly ascending (a negative side, a bound starting at or before the end of the previous one, anything after an open
    right side); `-M 1 -d - -f LIST` on the empty input and on a probe of 4 fields"""
    from gen import bound_text, wellformed_bound
    rng = chk.rng
    sd = [None, 1, 2, 3, -1]
    one = [(l, r) for l in sd for r in sd if wellformed_bound(l, r)]
    lists = [[b] for b in one] + [[a, b] for a in one for b in one] + [[a, b, c] for a in one for b in one for c in one]
    if chk.tier == "quick":
        lists = lists[: len(one) + len(one) ** 2] + rng.sample(lists[len(one) + len(one) ** 2:], 1500)

    def ascending(bs):
        prev = 0
        for l, r in bs:
            lo = 1 if l is None else l
            if lo < 1 or (r is not None and r < 1) or lo <= prev:
                return False
            prev = float("inf") if r is None else r
        return True
    # the same decision at the far end of the index type: sides next to i32::MAX (a check written as `next.l > prev.r` is right there, one written
    # as `next.l >= prev.r + 1` with a saturating or wrapping +1 is not); these lists carry --fallback-oob so that an accepted one also succeeds
    edge = [None, 1, 2, 2147483646, 2147483647]
    eone = [(l, r) for l in edge for r in edge if wellformed_bound(l, r) and (l or 0) > 2 or (r or 0) > 2]
    eone = [(l, r) for (l, r) in eone if wellformed_bound(l, r)]
    elists = [[b] for b in eone] + [[a, b] for a in eone + [(1, 1), (1, 2)] for b in eone]
    elists = elists if chk.tier != "quick" else elists[: len(eone)] + rng.sample(elists[len(eone):], min(300, len(elists) - len(eone)))
    probe_in = b"a-b-c-d\na-b-c-d\n"
    cases, metas = [], []
    for bs in [("edge", x) for x in elists]:
        _, bs = bs
        txt = ",".join(bound_text(l, r, None, l == r and rng.random() < 0.5) for l, r in bs)
        argv = rng.choice([["-M", "1", "-d", "-", "--fallback-oob=X", "-f", txt], ["-f", txt, "-d", "-", "-M", "64", "--fallback-oob", "X"]])
        cases.append((argv, b""))
        cases.append((argv, probe_in))
        metas.append((argv, bs))
    for bs in lists:
        txt = ",".join(bound_text(l, r, None, l == r and rng.random() < 0.5) for l, r in bs)
        if rng.random() < 0.2:
            txt = "".join("{" + bound_text(l, r, None, l == r) + "}" + rng.choice(["", "x", "+"]) for l, r in bs)
        argv = ["-M", "1", "-d", "-", "-f", txt]
        rng.shuffle(argv) if False else None
        if rng.random() < 0.5:
            argv = ["-f", txt, "-d", "-", "-M", "64"]
        cases.append((argv, b""))
        cases.append((argv, probe_in))
        metas.append((argv, bs))
    res = run_cli(tuc, cases)
    for k, (argv, bs) in enumerate(metas):
        (st0, out0), (st1, out1) = res[2 * k], res[2 * k + 1]
        chk.evaluations += 1
        chk.nontrivial_add(("M-bounds", tuple(argv)))
        asc = ascending(bs)
        chk.count("M-bounds:" + ("ascending" if asc else "not-ascending"))
        rejected = st0 == "1" and st1 == "1" and out0 == b"" and out1 == b""
        accepted = st0 == "0" and st1 == "0" and out1 != b""
        replay = {"argv": argv, "probe_hex": probe_in.hex(), "exit_on_empty_input": st0, "exit_on_probe": st1, "stdout_on_probe_hex": out1.hex(),
                  "statement_says": "accept" if asc else "reject (bounds not strictly ascending)"}
        if asc and not accepted:
            chk.report_oracle("-M refuses (or fails on) a strictly ascending bounds list", replay)
        if not asc and not rejected:
            chk.report_oracle("-M with bounds that are not strictly ascending (reordered, repeated, sharing a field, negative) is not rejected up front", replay)


def flags_case(F):
    c = {"kind": "decide", "mode": F["mode"] if F["mode"] != "dflt" else "dflt", "d": F["d"], "r": F["r"], "M": F["M"]}
    for k in ("e", "g", "p", "s", "z", "m", "j", "nj", "json", "t", "fb", "fmt", "fwd", "extra"):
        if F[k]:
            c[k] = True
    return c


def run(chk):
    tuc = build_tuc(release=False)
    rng = chk.rng
    full = None
    if chk.tier == "thorough":
        sets = list(space(rng))
        chk.exhaustive = True
    else:
        # sample without materialising the whole space: draw each coordinate
        sets = []
        for _ in range(20000):
            mode = rng.choice(["f", "f", "c", "b", "l", "dflt"])
            bk = "asc" if mode == "dflt" else rng.choice(["asc", "asc", "desc", "fmt", "share"])
            txt, fmt, fwd = BOUNDS[bk]
            if mode == "dflt":
                fmt, fwd = False, True
            F = dict(mode=mode, bk=bk, d=rng.choice(["absent", "absent", "one", "other"]), r=rng.choice(["absent", "absent", "one", "other"]),
                     M=rng.choice(["absent", "absent", "absent", "zero", "pos", "pos"]), fmt=fmt, fwd=fwd)
            for k in ("e", "g", "p", "s", "z", "m", "j", "nj", "json", "t", "fb", "extra"):
                F[k] = rng.random() < (0.08 if k == "extra" else 0.2)
            F["r_eq_d"] = rng.random() < 0.34
            sets.append(F)
    chk.rule = ("option sets over {-f|-c|-b|-l|none} × -d {absent, 1-byte, 2-byte} × -r {absent, 1-byte, 2-byte} × -M {absent, 0, 1} × "
                "subsets of {-e,-g,-p,-s,-z,-m,-j,--no-join,--json,-t,--fallback-oob, an unknown argument} × bounds shapes {ascending, "
                "reordered, field-sharing, formatted}; quick: seeded sample, thorough: the whole space; each set run on the empty input and "
                "on a derived probe; plus random re-orderings of the option groups; plus -M with every list of 1-3 bounds over sides {open,1,2,3,-1} "
                "(quick: all lists of ≤ 2 and 1500 of 3), accepted iff strictly ascending; plus random argument vectors in every spelling pico_args accepts (glued, `=`, quoted values, flag "
                "clusters, option-like values, repeated / unknown arguments) against the model of pico_args + parse_args; non-trivial = at least two options given")
    cli_cases = []
    for F in sets:
        argv = [a for g in groups(F) for a in g]
        cli_cases.append((argv, b""))
        cli_cases.append((argv, probe(F)))
    res = run_cli(tuc, cli_cases)
    model = run_model([case_line(flags_case(F)) for F in sets])
    # "fails on the first record" — also when that record is empty (or trimmed to empty): nothing may be printed first
    ff_sets = [F for F in sets if fails_first(F) and not conflict(F) and F["M"] == "absent"]
    ff_cases = []
    for F in ff_sets:
        argv = [a for g in groups(F) for a in g]
        eol = b"\0" if F["z"] else b"\n"
        ff_cases.append((argv, eol + probe(F)))
        ff_cases.append((argv, b"---" + eol + probe(F)))
    for (argv, inp), (st, out) in zip(ff_cases, run_cli(tuc, ff_cases)):
        chk.evaluations += 1
        chk.count("failFirst:empty-first-record")
        if st != "1" or out != b"":
            chk.report_oracle("-e with -j/-p and neither -r nor --json must fail on the first record, even an empty one, before printing anything",
                              {"argv": argv, "stdin_hex": inp.hex(), "exit": st, "stdout_hex": out.hex()})
    for k, F in enumerate(sets):
        (st0, out0), (st1, out1) = res[2 * k], res[2 * k + 1]
        argv = cli_cases[2 * k][0]
        chk.evaluations += 1
        if len(argv) >= 3:
            chk.nontrivial_add(tuple(argv))
        dec = model[k][0]
        exp_rej = conflict(F)
        ff = fails_first(F)
        chk.count("table:" + ("reject" if exp_rej else "failFirst" if ff else "accept"))
        if k < 4:
            chk.sample({"argv": argv, "exit_on_empty_input": st0, "exit_on_probe": st1, "model": dec})
        observed_reject = (st0 == "1" and st1 == "1" and out0 == b"" and out1 == b"")
        replay = {"argv": argv, "probe_hex": cli_cases[2 * k + 1][1].hex(), "exit_on_empty_input": st0, "exit_on_probe": st1,
                  "stdout_on_probe_hex": out1.hex(), "statement_says": "reject" if exp_rej else ("fail on first record" if ff else "accept"),
                  "model_says": dec}
        if st0 not in ("0", "1") or st1 not in ("0", "1"):
            chk.report_oracle("an option set makes tuc end with a status other than 0 or 1", replay)
            continue
        # -l with -e: the statement leaves the outcome open (DESIGN §5.5); default bounds `1:` with -m: the complement is
        # empty on every record, a data-dependent failure (C15), not a decision about the option set
        dont_care = ((F["mode"] == "l" and F["e"]) or (F["mode"] == "dflt" and F["m"])) and not exp_rej
        # direct oracle: the statement
        if exp_rej:
            if not observed_reject:
                chk.report_oracle("a contradictory / unsupported option set is not rejected up front", replay)
        elif ff and F["M"] == "absent":
            if not (st0 == "0" and st1 == "1"):
                chk.report_oracle("-e with -j/-p and neither -r nor --json should fail on the first record", replay)
        elif not dont_care:
            if st1 != "0":
                chk.report_oracle("an option set the statement accepts is refused (or fails on a resolvable probe)", replay)
        # tie: the model's decision
        chk.disagreements_checked += 1
        if dec == "reject":
            agrees = observed_reject
        elif dec == "failFirst":
            agrees = (st0 == "0" and st1 == "1")
        else:
            agrees = dont_care or st1 == "0"
        if not agrees:
            chk.report_tie("K-cli: the binary's decision differs from the model's `decision`", dict(replay, component="K-cli"))
    m_bounds_part(chk, tuc)
    from cases import argv_stream
    argv_stream(chk, tuc, 20000 if chk.tier == "quick" else 200000)
    # the wiring parse_args does for accepted sets (default delimiter / bounds, implied join, -c / --json replacement,
    # line-mode delimiter, --fallback-oob forms): binary stdout + status vs the model
    cli_roundtrip(chk, tuc, 3000 if chk.tier == "quick" else 40000, want=lambda a: len(a) >= 1)
    # order independence
    perm_cases, base = [], []
    pick = [F for F in sets if 2 <= len(groups(F)) <= 5]
    rng.shuffle(pick)
    for F in pick[: (300 if chk.tier == "quick" else 3000)]:
        g = groups(F)
        ref = [a for x in g for a in x]
        for _ in range(4):
            gg = g[:]
            rng.shuffle(gg)
            perm_cases.append(([a for x in gg for a in x], probe(F)))
            base.append(ref)
        perm_cases.append((ref, probe(F)))
        base.append(ref)
    pres = run_cli(tuc, perm_cases)
    byref = {}
    for (argv, inp), (st, out), ref in zip(perm_cases, pres, base):
        chk.evaluations += 1
        key = tuple(ref)
        if argv == ref:
            byref[key] = (st, out)
    for (argv, inp), (st, out), ref in zip(perm_cases, pres, base):
        if (st, out) != byref[tuple(ref)]:
            chk.report_oracle("the decision depends on the order of the options",
                              {"argv": argv, "reference_argv": ref, "this": [st, out.hex()], "reference": [byref[tuple(ref)][0], byref[tuple(ref)][1].hex()]})
