"""C08 — --json prints one well-formed array of strings per record, one element per part.
Oracle: every output line is parsed by an INDEPENDENT strict JSON reader (python's json) and the
decoded elements are compared with the parts selected by an independent python selection
(split / characters + resolve), element by element; plus implementation vs executed specification."""
import json

from cases import evaluate, run_corpus, normalise_field_case, resolve_py, split_records
from common import case_line, parse_result
from gen import medium_run, bound_text, sides, wellformed_bound, pick_side

LEVEL = "proof"
COUNTS = ["json"]        # modes of cases.count_thresholds
BIG_IO = lambda a: "--json" in a        # which command lines of cases.rand_cli the large-input stream keeps
SPECIALS = ['"', "\\", "\x00", "\x01", "\x08", "\x0c", "\r", "\t", "\x1f", "\x7f", " ", "😎", "a", "é", "\n"]
SPECIALS += ["\x80", "\u07ff", "\u0800", "\u0fff", "\ud7ff", "\ue000", "\uffff", "\U00010000", "\U0010ffff", "\x1b", "\u2028"]


def py_parts(rec, d, chars, bounds, n_override=None):
    """independent selection: list of parts (str) or None when some bound is unresolvable without fallback"""
    if chars:
        toks = list(rec)
    else:
        toks = rec.split(d)
    n = len(toks)
    out = []
    for (l, r, fb) in bounds:
        rr = resolve_py(l, r, n)
        if rr:
            lo, hi = rr
            out.extend(toks[lo - 1:hi])
        elif fb is not None:
            out.append(fb)
        else:
            return None
    return out


def _run_once(chk):
    chk.rule = ("valid UTF-8 records over {\", \\, U+0000, U+0001, \\b, \\f, CR, TAB, U+001F, DEL, U+2028, 😎, a, é, the other EOL} and the "
                "delimiter; -f with 1-byte and multi-byte delimiters and -c; bounds without format text, sides in ±4/open, fallbacks; -z; "
                "every output line parsed by python's json (strict) and compared element-wise with an independent selection; "
                "non-trivial = at least one element")
    run_corpus(chk)
    rng = chk.rng
    cases, metas = [], []
    n = 30000 if chk.tier == "quick" else 300000
    for _ in range(n):
        z = rng.random() < 0.25
        eol = "\0" if z else "\n"
        chars = rng.random() < 0.3
        d = rng.choice(["-", "--", "ab", "é"])
        alpha = [c for c in SPECIALS if c != eol] + ([] if chars else [d, d])
        recs = ["".join(rng.choice(alpha) for _ in range(rng.randint(1, 6))) for _ in range(rng.randint(1, 2))]
        if rng.random() < 0.08:
            # a part of 15-513 characters, dense in characters that need escaping (each may grow sixfold)
            run = "".join(medium_run(rng, [c for c in SPECIALS if c != eol and (chars or c != d)]))
            # (in field mode the run is a part of its own: exactly 15 … 513 characters between two delimiters)
            recs[0] = recs[0] + run if chars else recs[0] + d + run + rng.choice(["", d + "x"])
        nb = rng.randint(1, 3)
        bs = []
        for _ in range(nb):
            while True:
                l, r = pick_side(rng, 4), pick_side(rng, 4)
                single = rng.random() < 0.4
                if single:
                    if l is None:
                        continue
                    r = l
                if wellformed_bound(l, r):
                    break
            fb = rng.choice(["F", 'q"\\', "n=a", "==", " ", None, None, None, None])
            bs.append((l, r, fb, single))
        inp = eol.join(recs) + eol
        c = {"kind": "cut", "eng": rng.choice(["str", "auto"]), "b": ",".join(bound_text(*b) for b in bs), "in": inp.encode(), "z": z, "json": True}
        if chars:
            c.update({"bt": "c", "d": b""})
        else:
            c["d"] = d.encode()
        cases.append(normalise_field_case(c))
        metas.append((recs, d, chars, [(l, r, fb) for (l, r, fb, _) in bs], eol))
    for c in cases[:4]:
        chk.sample(case_line(c))
    lines, impl, _ = evaluate(chk, cases, "K-json", spec=True)
    for l, i, (recs, d, chars, bs, eol) in zip(lines, impl, metas):
        st, out = parse_result(i)
        if st not in ("ok", "fail"):
            continue
        try:
            text = out.decode("utf-8")
        except UnicodeDecodeError:
            chk.report_oracle("--json output is not UTF-8", {"case": l, "implementation": i})
            continue
        outs = text.split(eol)
        if st == "ok":
            if outs[-1] != "":
                chk.report_oracle("--json output does not end with the EOL", {"case": l, "implementation": i})
                continue
            outs = outs[:-1]
        expected = [py_parts(r, d, chars, bs) for r in recs if r != ""]
        for k, exp in enumerate(expected):
            if exp is None:
                # this record must fail
                if st != "fail" or len(outs) > k + 1:
                    chk.report_oracle("a record with an unresolvable bound and no fallback did not fail the run", {"case": l, "implementation": i})
                break
            if k >= len(outs):
                chk.report_oracle("--json printed fewer lines than records", {"case": l, "implementation": i})
                break
            try:
                got = json.loads(outs[k], strict=True)
            except ValueError:
                got = None
            if got != exp or not isinstance(got, list) or any(not isinstance(x, str) for x in got):
                chk.report_oracle("a --json line does not decode to the selected parts",
                                  {"case": l, "implementation": i, "line": outs[k], "decoded": got, "expected_parts": exp})
                break


def run(chk):
    # thorough = several independent rounds of the same generators (the PRNG keeps advancing), so that memory stays bounded
    for _round in range(1 if chk.tier == "quick" else 6):
        _run_once(chk)
