"""C09 — negative indexes are the exact mirror of positive ones, in every mode.
Oracle: implementation on B vs implementation on B' (any subset of negative indexes rewritten),
on inputs whose records all have n parts."""
from cases import evaluate, run_corpus, normalise_field_case, lines_straddle_with_fallback
from common import case_line
from gen import all_bounds, bound_text, sides, wellformed_bound

LEVEL = "proof"
COUNTS = ["f", "l", "b"]        # modes of cases.count_thresholds


def mirror(v, n):
    return n + 1 + v if (v is not None and v < 0) else v


def _run_once(chk):
    chk.rule = ("K-range: try_into_range exhaustively for n ≤ 7, sides in -8..8/open (mirror pairs compared on the implementation); "
                "engine level: for n in 1..5 parts, bounds lists of 1-3 bounds with sides in ±(n+1)/open, a random subset of the "
                "negative indexes with 1 ≤ k ≤ n rewritten to n+1-k (skipped when the rewritten bound is not well-formed); modes "
                "-f (general, fast, dispatch), -c, -b, -l (both algorithms), with -j/-s/-m/--json; non-trivial = selects a byte or fails")
    run_corpus(chk)
    rng = chk.rng
    # --- K-range, exhaustive
    rc = []
    N = 7 if chk.tier == "quick" else 9
    for l in sides(N + 1):
        for r in sides(N + 1):
            for n in range(0, N + 1):
                rc.append({"kind": "range", "l": "_" if l is None else l, "r": "_" if r is None else r, "n": n, "meta": (l, r, n)})
    # UserBounds::matches (used by the line-at-a-time and -M walks), incl. the sign-mismatch errors
    mc = []
    for l in sides(N):
        for r in sides(N):
            for idx in range(-N, N + 1):
                if idx != 0:
                    mc.append({"kind": "matches", "l": "_" if l is None else l, "r": "_" if r is None else r, "idx": idx})
    evaluate(chk, mc, "K-matches", spec=False)
    lines, impl, model = evaluate(chk, rc, "K-range", spec=False)
    idx = {c["meta"]: i for c, i in zip(rc, impl)}
    for (l, r, n), res in idx.items():
        for (l2, r2) in ((mirror(l, n) if l is not None and l < 0 and -l <= n else l, r),
                         (l, mirror(r, n) if r is not None and r < 0 and -r <= n else r)):
            if (l2, r2) != (l, r) and (l2, r2, n) in idx:
                if idx[(l2, r2, n)] != res:
                    chk.report_oracle("try_into_range differs between -k and n+1-k",
                                      {"case": f"range l={l} r={r} n={n}", "case_b": f"range l={l2} r={r2} n={n}",
                                       "a": res, "b": idx[(l2, r2, n)]})
    # --- engines
    cnt = 25000 if chk.tier == "quick" else 250000
    A, B = [], []
    for _ in range(cnt):
        n = rng.randint(1, 5)
        nb = rng.randint(1, 3)
        bs, bs2 = [], []
        ok = True
        for _ in range(nb):
            while True:
                l = rng.choice(sides(n + 1))
                r = rng.choice(sides(n + 1))
                single = rng.random() < 0.4
                if single:
                    if l is None:
                        continue
                    r = l
                if wellformed_bound(l, r):
                    break
            fb = rng.choice(["F", None, None])
            l2 = mirror(l, n) if (l is not None and l < 0 and -l <= n and rng.random() < 0.7) else l
            r2 = l2 if single else (mirror(r, n) if (r is not None and r < 0 and -r <= n and rng.random() < 0.7) else r)
            if not wellformed_bound(l2, r2):
                ok = False
            bs.append(bound_text(l, r, fb, single))
            bs2.append(bound_text(l2, r2, fb, single))
        if not ok or bs == bs2:
            continue
        mode = rng.choice(["f", "f", "fast", "auto", "c", "b", "l", "json"])
        z = rng.random() < 0.2
        eol = b"\0" if z else b"\n"
        parts = [rng.choice([b"x", b"y", b"", b"xy"]) for _ in range(n)]
        o = {}
        if mode in ("f", "fast", "auto", "json"):
            d = b"-" if mode in ("fast", "auto") else rng.choice([b"-", b"--", b"ab"])
            if mode in ("fast", "auto"):
                parts = [p for p in parts]
            rec = d.join(parts)
            if rec == b"":
                continue
            nrec = rng.randint(1, 2)
            inp = eol.join([rec] * nrec) + eol
            o = {"eng": {"f": "str", "fast": "fast", "auto": "auto", "json": "str"}[mode], "d": d, "in": inp, "z": z}
            if mode == "json":
                o["json"] = True
            else:
                if rng.random() < 0.3:
                    o["j"] = True
                if rng.random() < 0.2:
                    o["s"] = True
            if mode in ("f", "json") and rng.random() < 0.25:
                o["m"] = True
        elif mode == "c":
            chars = [rng.choice(["a", "é", "€", "😎"]) for _ in range(n)]
            inp = "".join(chars).encode() + eol
            o = {"eng": "str", "bt": "c", "d": b"", "in": inp, "z": z, "j": True, "r": b""}
        elif mode == "b":
            inp = bytes(rng.choice([0, 10, 97, 255]) for _ in range(n))
            o = {"eng": "bytes", "bt": "b", "d": b"", "in": inp}
        else:
            lines_ = [rng.choice([b"a", b"", b"bc"]) for _ in range(n)]
            if n == 1 and lines_[0] == b"":
                continue
            # a final empty line only exists if it is terminated
            inp = eol.join(lines_) + (eol if (lines_[-1] == b"" or rng.random() < 0.6) else b"")
            o = {"eng": "lines", "bt": "l", "d": eol, "in": inp, "z": z, "j": rng.random() < 0.8}
            if rng.random() < 0.2:
                o["m"] = True
        ca = {"kind": "cut", "b": ",".join(bs)}
        ca.update(o)
        cb = dict(ca)
        cb["b"] = ",".join(bs2)
        A.append(normalise_field_case(ca))
        B.append(normalise_field_case(cb))
    for c in A[:3]:
        chk.sample(case_line(c))
    la, ia, _ = evaluate(chk, A, "K-engines", spec=False)
    lb, ib, _ = evaluate(chk, B, "K-engines", spec=False, count=False)
    for x, y, a, b, ca, cb in zip(la, lb, ia, ib, A, B):
        # a failing -l run may have printed a different part of its (single, failing) record
        # depending on the algorithm that served it: only the status is compared then
        if a != b and not (a.startswith("fail") and b.startswith("fail") and "eng=lines" in x):
            key = "lines-fwd-straddling-range-with-fallback" if (lines_straddle_with_fallback(ca) or lines_straddle_with_fallback(cb)) else None
            chk.report_oracle("output changes when -k is rewritten to n+1-k",
                              {"case": x, "case_b": y, "a": a, "b": b}, finding_key=key)


FALLBACK_WORDS = ["F", "missing", "zero", "gap", "just", "spam", "mjz", "sVg", "-", "-p", "pg s", "é", "hello", "h", "Vh"]


def cli_mirror(chk):
    """the REAL binary on pairs of command lines that differ only in the spelling of indexes.  A bounds list that starts with a negative index is a
    command-line VALUE that starts with a dash: whatever the argument parser does with such text (flags looked up inside single-dash arguments,
    a leading '-' taken for an option) must not depend on the spelling — so the fallback texts are WORDS (letters that are also flags), and the
    value is given in every way pico_args accepts (`-f V`, `-f=V`, `--fields V`, `--fields=V`)"""
    from common import build_tuc, run_cli
    rng = chk.rng
    tuc = build_tuc(release=False)
    pairs = []
    while len(pairs) < (1500 if chk.tier == "quick" else 15000):
        n = rng.randint(1, 5)
        bs, bs2 = [], []
        ok = True
        for _ in range(rng.randint(1, 3)):
            while True:
                l, r = rng.choice(sides(n + 1)), rng.choice(sides(n + 1))
                single = rng.random() < 0.5
                if single:
                    if l is None:
                        continue
                    r = l
                if wellformed_bound(l, r):
                    break
            fb = rng.choice(FALLBACK_WORDS) if rng.random() < 0.6 else None
            l2 = mirror(l, n) if (l is not None and l < 0 and -l <= n and rng.random() < 0.8) else l
            r2 = l2 if single else (mirror(r, n) if (r is not None and r < 0 and -r <= n and rng.random() < 0.8) else r)
            ok = ok and wellformed_bound(l2, r2)
            bs.append(bound_text(l, r, fb, single))
            bs2.append(bound_text(l2, r2, fb, single))
        if not ok or bs == bs2:
            continue
        mode = rng.choice(["f", "f", "c", "b", "l"])
        if mode == "f":
            inp = b",".join(rng.choice([b"x", b"y", b"", b"xy"]) for _ in range(n)) + b"\n"
            if inp == b"\n":
                continue
            inp = inp * rng.randint(1, 2)
            rest = ["-d", ","] + rng.choice([[], ["-j"], ["-s"], ["--json"]])
        elif mode == "c":
            inp = "".join(rng.choice(["a", "é", "€", "😎"]) for _ in range(n)).encode() + b"\n"
            rest = []
        elif mode == "b":
            inp = bytes(rng.choice([10, 97, 98, 255]) for _ in range(n))
            rest = []
        else:
            ls = [rng.choice([b"a", b"", b"bc"]) for _ in range(n)]
            if n == 1 and ls[0] == b"":
                continue
            inp = b"\n".join(ls) + b"\n"
            rest = rng.choice([[], ["--no-join"]])
        how = rng.randrange(4)
        long = {"f": "--fields", "c": "--characters", "b": "--bytes", "l": "--lines"}[mode]

        def argv_of(v):
            a = [["-" + mode, v], ["-" + mode + "=" + v], [long, v], [long + "=" + v]][how]
            return (a + rest) if rng_first else (rest + a)
        rng_first = rng.random() < 0.5
        pairs.append((argv_of(",".join(bs)), argv_of(",".join(bs2)), inp, mode))
    ra = run_cli(tuc, [(a, i) for a, _, i, _ in pairs])
    rb = run_cli(tuc, [(b, i) for _, b, i, _ in pairs])
    for (a, b, inp, mode), x, y in zip(pairs, ra, rb):
        chk.evaluations += 1
        chk.count("cli-mirror:" + mode)
        chk.nontrivial_add(("cli-mirror", tuple(a), inp))
        if x != y and not (mode == "l" and x[0] == "1" and y[0] == "1"):
            # (the -l known finding: a straddling range with a fallback, line-at-a-time vs buffered)
            chk.report_oracle("CLI: the output changes when -k is rewritten to n+1-k in the bounds given on the command line",
                              {"argv_a": a, "argv_b": b, "stdin_hex": inp.hex(), "a": [x[0], x[1].hex()], "b": [y[0], y[1].hex()]},
                              finding_key=_lines_finding(a, b, inp) if mode == "l" else None)


def _lines_finding(a, b, inp):
    """the listed -l finding (a closed range straddling the end of the input, with a fallback, served line at a time) seen from the command line"""
    def bounds_of(argv):
        for k, t in enumerate(argv):
            if t in ("-l", "--lines"):
                return argv[k + 1]
            if t.startswith("-l=") or t.startswith("--lines="):
                return t.split("=", 1)[1]
        return ""
    for v in (bounds_of(a), bounds_of(b)):
        c = {"kind": "cut", "eng": "lines", "bt": "l", "b": v, "in": inp, "d": b"\n"}
        try:
            if lines_straddle_with_fallback(c):
                return "lines-fwd-straddling-range-with-fallback"
        except Exception:
            pass
    return None


def run(chk):
    cli_mirror(chk)
    # thorough = several independent rounds of the same generators (the PRNG keeps advancing), so that memory stays bounded
    for _round in range(1 if chk.tier == "quick" else 6):
        _run_once(chk)
