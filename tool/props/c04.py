"""C04 — -M output does not depend on how the input is chunked.
Oracle: implementation on segmentation σ vs implementation on the one-segment reader, for EVERY
segmentation of every small input (2^(len-1)) and for random / one-byte / adversarial
segmentations of longer inputs.  No admissibility restriction."""
from cases import evaluate, run_corpus
from common import case_line
from gen import bytes_upto, segmentations
from props.c03 import BOUNDS

LEVEL = "proof"
LYING = lambda a: "-M" in a        # which command lines of cases.rand_cli the lying-size stdin scenario keeps
BIG_IO = lambda a: "-M" in a        # which command lines of cases.rand_cli the large-input stream keeps


def run(chk):
    chk.rule = ("every input ≤ L bytes over {a,b,-,EOL} × the -M bounds/options pool × EVERY segmentation into non-empty reads "
                "(2^(len-1)); random inputs up to 300 bytes with random, one-byte and adversarial (cut just before/after every "
                "delimiter and EOL) segmentations; hand-built bounds with two adjacent literal texts are also run (model = "
                "implementation expected there, both chunk-dependent); plus 150 (thorough 3000) inputs with fields of 1 KiB - 70 KiB under whole / right-after-every-delimiter / right-before / 1000-5000 / 4096 / "
                "65536-byte reads (implementation against itself); non-trivial = selects a byte or fails; distinct by case text")
    run_corpus(chk)
    rng = chk.rng
    L = 5 if chk.tier == "quick" else 6
    pool = BOUNDS if chk.tier == "thorough" else BOUNDS[:20]
    optsets = [{}, {"j": True}, {"j": True, "r": b"/"}, {"fb": b"G"}]

    def oracle(lines, impl, base_idx):
        for i, (l, a, bi) in enumerate(zip(lines, impl, base_idx)):
            if bi is None or bi == i:
                continue
            if a != impl[bi]:
                chk.report_oracle("-M output depends on how the input is split into reads",
                                  {"case": l, "case_b": lines[bi], "this_segmentation": a, "one_segment": impl[bi]})

    cases, base_idx = [], []
    sampled = False
    for inp in bytes_upto([b"a", b"-", b"\n", b"b"], L, 1):
        for b in pool:
            for o in optsets:
                first = len(cases)
                for segs in segmentations(len(inp)):
                    c = {"kind": "cut", "eng": "stream", "d": b"-", "b": b, "in": inp, "seg": segs}
                    c.update(o)
                    if o.get("r") is not None:
                        c["j"] = True
                    cases.append(c)
                    base_idx.append(first)   # the first segmentation generated is the one-segment reader
        if len(cases) > 1500000:
            # evaluate in batches so that the thorough tier (15 M cases) never holds everything in memory
            if not sampled:
                for c in cases[5000:5003]:
                    chk.sample(case_line(c))
                sampled = True
            lines, impl, _ = evaluate(chk, cases, "K-stream", spec=False)
            oracle(lines, impl, base_idx)
            cases, base_idx = [], []
    chk.exhaustive = False
    cnt = 3000 if chk.tier == "quick" else 40000
    for _ in range(cnt):
        z = rng.random() < 0.2
        eol = b"\0" if z else b"\n"
        n = rng.choice([10, 30, 80, 300])
        inp = bytes(rng.choice(b"ab-" + eol + b"-\r") for _ in range(n))
        b = rng.choice(BOUNDS)
        o = {"z": z}
        if rng.random() < 0.4:
            o["j"] = True
        if rng.random() < 0.2:
            o["r"] = b"/"
            o["j"] = True
        if rng.random() < 0.3:
            o["fb"] = b"G"
        first = len(cases)
        adv = []
        cur = 0
        for i, ch in enumerate(inp):
            if ch in (45, eol[0]):
                if i - cur > 0:
                    adv.append(i - cur)
                adv.append(1)
                cur = i + 1
        if n - cur > 0:
            adv.append(n - cur)
        for segs in ([n], [1] * n, [rng.randint(1, 9) for _ in range(n)], adv, [rng.choice([1, 64]) for _ in range(n)]):
            c = {"kind": "cut", "eng": "stream", "d": b"-", "b": b, "in": inp, "seg": segs}
            c.update(o)
            cases.append(c)
            base_idx.append(first)
    # adjacent fillers (cannot come from the parser): model and implementation must still agree
    for inp in bytes_upto([b"a", b"-", b"\n"], 4, 1):
        for segs in segmentations(len(inp)):
            cases.append({"kind": "cut", "eng": "stream", "d": b"-", "bv": "F(78);F(79);B(1,1,-);F(7a);F(77);B(2,2,-)", "in": inp, "seg": segs})
            base_idx.append(None)
    for c in cases[-200:-198]:
        chk.sample(case_line(c))
    lines, impl, _ = evaluate(chk, cases, "K-stream", spec=False)
    oracle(lines, impl, base_idx)

    # large fields and large reads: the same independence on inputs in which one or two fields are 1 KiB - 70 KiB long, read whole, in reads
    # that end right after every delimiter / EOL (then whatever is left of the field in one piece), in reads of 1000-5000 bytes, of 4096 and
    # of 65536 bytes.  Implementation against itself (this IS the property); the model is not run on these sizes.
    from common import run_impl
    from gen import BIG_SIZES_SMALL
    big, bidx = [], []
    for _ in range(150 if chk.tier == "quick" else 3000):
        z = rng.random() < 0.2
        eol = b"\0" if z else b"\n"
        recs = []
        for _r in range(rng.randint(1, 3)):
            fields = [rng.choice([b"", b"x", b"key", b"ab"]) for _f in range(rng.randint(1, 4))]
            for _k in range(rng.choice([1, 1, 2])):
                j = rng.randrange(len(fields))
                fields[j] = fields[j] + rng.choice([b"x", b"y\r", b"ab"]) * rng.choice(BIG_SIZES_SMALL)
            recs.append(b"-".join(fields))
        inp = eol.join(recs) + (eol if rng.random() < 0.8 else b"")
        n = len(inp)
        b = rng.choice(BOUNDS) if rng.random() < 0.6 else rng.choice(["1", ":1", "1:", "2", "1,2", "2:", "{1}x"])
        o = {"z": z}
        if rng.random() < 0.4:
            o["j"] = True
        if rng.random() < 0.2:
            o["r"] = b"/"
            o["j"] = True
        if rng.random() < 0.3:
            o["fb"] = b"G"
        adv, cur = [], 0
        for i, ch in enumerate(inp):
            if ch in (45, eol[0]):
                adv.append(i + 1 - cur)          # a read that ends right after the delimiter / EOL
                cur = i + 1
        if n - cur > 0:
            adv.append(n - cur)
        adv2, cur = [], 0
        for i, ch in enumerate(inp):
            if ch in (45, eol[0]) and i > cur:
                adv2.append(i - cur)             # … and one that ends right before it
                cur = i
        if n - cur > 0:
            adv2.append(n - cur)
        first = len(big)
        for segs in ([n], adv, adv2, [rng.randint(1000, 5000) for _ in range(n // 1000 + 1)], [4096] * (n // 4096 + 1), [65536] * (n // 65536 + 1),
                     [rng.choice([1, 4096]) for _ in range(64)] + [n]):
            c = {"kind": "cut", "eng": "stream", "d": b"-", "b": b, "in": inp, "seg": segs}
            c.update(o)
            big.append(c)
            bidx.append(first)
    blines = [case_line(c) for c in big]
    bimpl = run_impl(blines)
    for i, (l, a, bi) in enumerate(zip(blines, bimpl, bidx)):
        chk.evaluations += 1
        chk.count("large-fields:" + a.split(" ")[0])
        chk.nontrivial_add(("large", hash(l)))
        if a != bimpl[bi]:
            chk.report_oracle("-M output depends on how the input is split into reads (input with fields of 1 KiB - 70 KiB)",
                              {"case": l if len(l) < 60000 else l[:60000] + "…", "segmentation": big[i]["seg"][:40], "input_len": len(big[i]["in"]),
                               "this_segmentation": a[:300], "one_segment": bimpl[bi][:300]})
