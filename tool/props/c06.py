"""C06 — byte mode is exact and binary-safe.  Oracle: implementation vs executed specBytes."""
from cases import evaluate, run_corpus
from common import case_line
from gen import bytes_upto, rand_bounds

LEVEL = "proof"


def run(chk):
    chk.rule = ("every byte string ≤ L over {00,0A,61,FF} × a bounds pool (positive, negative, open, repeated, reordered, formatted, with "
                "fallbacks) exhaustively; random inputs up to 64 KiB+1 with random bounds; non-trivial = output non-empty or failure")
    run_corpus(chk)
    rng = chk.rng
    L = 5 if chk.tier == "quick" else 6
    pool = ["1", "-1", "2:3", ":2", "-2:", "3,1", "1,1", "{1}x{-1}", "1:", "9=F", "2:9=F,1", "-9:", "{{{1}}}\\n"]
    cases = []
    for data in bytes_upto([b"\0", b"\n", b"a", b"\xff"], L):
        for b in pool:
            cases.append({"kind": "cut", "eng": "bytes", "bt": "b", "d": b"", "b": b, "in": data})
        cases.append({"kind": "cut", "eng": "bytes", "bt": "b", "d": b"", "b": "7,1", "in": data, "fb": b"G"})
    for _ in range(2000 if chk.tier == "quick" else 20000):
        n = rng.choice([0, 1, 7, 100, 5000, 65536, 65537])
        data = bytes(rng.getrandbits(8) for _ in range(n)) if n < 6000 else bytes([rng.getrandbits(8)]) * n
        bs, bt = rand_bounds(rng, k=8)
        c = {"kind": "cut", "eng": rng.choice(["bytes", "auto"]), "bt": "b", "d": b"", "b": bt, "in": data}
        if rng.random() < 0.2:
            c["fb"] = b"G"
        cases.append(c)
    for c in cases[300:304]:
        chk.sample(case_line(c)[:300])
    lines, impl, _ = evaluate(chk, cases, "K-bytes", spec=True)
