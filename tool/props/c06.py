"""C06 — byte mode is exact and binary-safe.  Oracle: implementation vs executed specBytes."""
from cases import evaluate, run_corpus
from common import case_line
from gen import bound_text, bytes_upto, rand_bounds

LEVEL = "proof"
LYING = lambda a: "-b" in a        # which command lines of cases.rand_cli the lying-size stdin scenario keeps
COUNTS = ["b"]        # modes of cases.count_thresholds
BIG_IO = lambda a: "-b" in a        # which command lines of cases.rand_cli the large-input stream keeps


def _run_once(chk):
    chk.rule = ("every byte string ≤ L over {00,0A,61,FF} × a bounds pool (positive, negative, open, repeated, reordered, formatted, with "
                "fallbacks) exhaustively; random inputs up to 64 KiB+1 with random bounds; non-trivial = output non-empty or failure")
    run_corpus(chk)
    rng = chk.rng
    L = 5 if chk.tier == "quick" else 6
    pool = ["1", "-1", "2:3", ":2", "-2:", "3,1", "1,1", "{1}x{-1}", "1:", "9=F", "2:9=F,1", "-9:", "{{{1}}}\\n"]
    cases = []
    for data in bytes_upto([b"\0", b"\n", b"a", b"\xff"], L):
        for b in pool:
            cases.append({"kind": "cut", "eng": "bytes", "bt": "b", "d": b"", "b": b, "in": data})
        cases.append({"kind": "cut", "eng": "bytes", "bt": "b", "d": b"", "b": "7,1", "in": data, "fb": b"G"})
    for _ in range(2000 if chk.tier == "quick" else 20000):
        n = rng.choice([0, 1, 7, 100, 5000, 65536, 65537])
        data = bytes(rng.getrandbits(8) for _ in range(n)) if n < 6000 else bytes([rng.getrandbits(8)]) * n
        bs, bt = rand_bounds(rng, k=8)
        c = {"kind": "cut", "eng": rng.choice(["bytes", "auto"]), "bt": "b", "d": b"", "b": bt, "in": data}
        if rng.random() < 0.2:
            c["fb"] = b"G"
        cases.append(c)
    for c in cases[300:304]:
        chk.sample(case_line(c)[:300])
    # a writer that accepts only a few bytes per call (short writes): nothing may be lost
    for c in list(cases[::7]):
        d = dict(c)
        d["sw"] = rng.choice([1, 2, 5])
        cases.append(d)
    lines, impl, _ = evaluate(chk, cases, "K-bytes", spec=True)
    # the real binary on slices larger than main's 64 KiB BufWriter (its inner stdout is a LineWriter that
    # answers large writes containing LF with short counts); expected = plain python slicing
    from common import build_tuc, run_cli
    from cases import resolve_py
    tuc = build_tuc(release=False)
    cli = []
    for size in (70000, 140000):
        for _ in range(6 if chk.tier == "quick" else 40):
            data = bytearray(rng.choice([0, 97, 255]) for _ in range(size))
            for _ in range(rng.randint(1, 5)):
                data[rng.randrange(size)] = 10
            data = bytes(data)
            for b, (l, r) in (("1:", (1, None)), ("2:", (2, None)), (f"-{size - 3}:", (-(size - 3), None)), (":-2", (None, -2))):
                cli.append((["-b", b], data, (l, r)))
    res = run_cli(tuc, [(a, d) for a, d, _ in cli])
    for (argv, data, (l, r)), (st, out) in zip(cli, res):
        chk.evaluations += 1
        chk.count("cli:large-slice")
        chk.nontrivial_add(("cli", argv[1], len(data), data[:40]))
        lo, hi = resolve_py(l, r, len(data))
        if st != "0" or out != data[lo - 1:hi]:
            chk.report_oracle("CLI: a large byte slice is not reproduced exactly",
                              {"argv": argv, "stdin_bytes": len(data), "stdin_sha": __import__("hashlib").sha1(data).hexdigest(), "exit": st, "stdout_bytes": len(out),
                               "expected_bytes": hi - lo + 1, "first_difference_at": next((i for i, (x, y) in enumerate(zip(out, data[lo - 1:hi])) if x != y), min(len(out), hi - lo + 1))})

    # the real binary on small inputs that START with a magic number (byte order marks, #!, gzip, ELF, PNG, a lone NUL …): binary-safe
    # means they are bytes like any other, whatever main does with stdin before the cutter sees it; expected = plain python slicing
    small = []
    MAGIC = [b"\xef\xbb\xbf", b"\xff\xfe", b"\xfe\xff", b"\xff\xfe\x00\x00", b"#!", b"#!/bin/sh\n", b"\x1f\x8b", b"\x7fELF", b"\x89PNG\r\n", b"\x00",
             b"\r\n", b"\n", b"\xff", b"PK\x03\x04", b"%PDF", b"\x1b["]
    for _ in range(400 if chk.tier == "quick" else 4000):
        data = rng.choice(MAGIC) + bytes(rng.choice([0, 10, 13, 97, 255, 239, 187, 191]) for _ in range(rng.randint(0, 6)))
        n = len(data)
        l, r = rng.choice([(1, None), (1, 3), (2, None), (-1, -1), (n, n), (1, 1), (None, 2), (-n, -n), (4, 4)])
        if resolve_py(l, r, n) is None:
            l, r = 1, None
        small.append((["-b", bound_text(l, r, None, l == r)], data, (l, r)))
    for (argv, data, (l, r)), (st, out) in zip(small, run_cli(tuc, [(a, d) for a, d, _ in small])):
        chk.evaluations += 1
        chk.count("cli:magic-prefix")
        chk.nontrivial_add(("magic", argv[1], data))
        lo, hi = resolve_py(l, r, len(data))
        if st != "0" or out != data[lo - 1:hi]:
            chk.report_oracle("CLI: an input that starts with a magic number is not cut byte for byte",
                              {"argv": argv, "stdin_hex": data.hex(), "exit": st, "stdout_hex": out.hex(), "expected_hex": data[lo - 1:hi].hex()})


def past_i32_bytes(chk):
    """thorough tier only: byte mode resolves its bounds against the length of the WHOLE input — inputs of 2^31 and 2^32 + 3 bytes through the real release
    binary (D29: `parts_length as i32`); the expected output is known in advance (the input is all zero bytes, the request selects 2 or 3 of them)"""
    import subprocess
    from common import build_tuc, ENV
    tuc = build_tuc(release=True)
    for n, bounds, want in ((2147483648, "1:3", 3), (2147483648, "-2:", 2), (2147483649, "2147483647:", 3), (4294967299, "-2:", 2), (4294967299, "1,-1", 2)):
        cmd = f"head -c {n} /dev/zero | {tuc} -b {bounds} | wc -c; echo status=${{PIPESTATUS[1]}}"
        p = subprocess.run(["bash", "-c", cmd], stdout=subprocess.PIPE, stderr=subprocess.DEVNULL, text=True, env=ENV, timeout=3600)
        out = p.stdout.split()
        chk.evaluations += 1
        chk.count("bytes-past-i32")
        chk.nontrivial_add(("bytes-past-i32", n, bounds))
        got = int(out[0]) if out and out[0].isdigit() else -1
        if got != want or "status=0" not in p.stdout:
            chk.report_oracle("byte mode on an input of 2 GiB or more does not print exactly the selected bytes",
                              {"shell": cmd, "printed_bytes": got, "expected_bytes": want, "raw": p.stdout[-200:]})


def run(chk):
    if chk.tier == "thorough":
        past_i32_bytes(chk)
    # thorough = several independent rounds of the same generators (the PRNG keeps advancing), so that memory stays bounded
    for _round in range(1 if chk.tier == "quick" else 6):
        _run_once(chk)
