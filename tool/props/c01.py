"""C01 — field mode emits exactly the requested fields, in request order.
Oracle: implementation (general path, fast path, dispatch as `main` does) against the executed
abstract specification `Spec.specRun`.  Tie: implementation = Lean model on every case."""
from cases import evaluate, rand_field_case, run_corpus, normalise_field_case, cli_roundtrip
from common import build_tuc
from gen import DELIMS, bytes_upto, all_bounds

LEVEL = "proof"
LYING = lambda a: not any(x in a for x in ("-b", "-l", "-c"))        # which command lines of cases.rand_cli the lying-size stdin scenario keeps
COUNTS = ["f", "g"]        # modes of cases.count_thresholds
BIG_IO = lambda a: "-f" in a and "-M" not in a        # which command lines of cases.rand_cli the large-input stream keeps


def _run_once(chk):
    chk.rule = ("seeded random field-mode cases (delimiters -,--,ab,aba,é,TAB,',' ; records over the delimiter's bytes, x, y, "
                "the other of LF/NUL, CR, 0xFF; 1-3 records with/without final EOL; 1-3 bounds with sides in ±4/open, plain or "
                "formatted, fallbacks; random subsets of -g -p -t -s -j -r -z --fallback-oob) through read_and_cut_str, the fast lane "
                "and main's dispatch, plus a bounded-exhaustive stream of every record ≤ L bytes over {d-bytes,x} × a fixed bounds pool × option "
                "sets; non-trivial = output selects at least one byte or the run fails; distinct by case text")
    run_corpus(chk)
    rng = chk.rng
    n = 60000 if chk.tier == "quick" else 600000
    cases = []
    for i in range(n):
        eng = ("str", "str", "auto", "fast")[i % 4]
        allow = ("g", "p", "t", "s", "j", "r", "z", "fb") if eng != "fast" else ("t", "s", "j", "z", "fb")
        delims = DELIMS if eng != "fast" else [b"-", b"\t", b","]
        cases.append(rand_field_case(rng, eng=eng, allow=allow, delims=delims))
    # bounded exhaustive core
    L = 5 if chk.tier == "quick" else 7
    pool = ["1", "2", "-1", "2:", ":2", "1,3", "3,1", "2:3", "-2:", "{1}x{2}", "2=F", "1:2,2", "-1,1"]
    optsets = [{}, {"g": True}, {"p": True}, {"t": "b"}, {"s": True}, {"j": True}, {"r": b"/"}, {"g": True, "r": b"::"},
               {"p": True, "t": "l", "j": True}]
    for d in (b"-", b"--", b"aba"):
        alpha = sorted(set(bytes([x]) for x in d)) + [b"x"]
        for rec in bytes_upto(alpha, L if len(alpha) <= 2 else L - 1):
            for b in pool:
                for o in optsets:
                    c = {"kind": "cut", "eng": "str", "d": d, "b": b, "in": rec + b"\n"}
                    c.update(o)
                    cases.append(normalise_field_case(c))
    for c in cases[:3] + cases[-3:]:
        chk.sample({k: (v.decode("latin1") if isinstance(v, bytes) else v) for k, v in c.items() if k != "meta"})
    evaluate(chk, cases, "K-general")
    # end to end: the real binary on random accepted field-mode command lines vs the model
    cli_roundtrip(chk, build_tuc(release=False), 2000 if chk.tier == "quick" else 20000,
                  want=lambda a: len(a) >= 1 and not any(x in a for x in ("-c", "-b", "-l")))


def other_build(chk):
    """the build without default features (no regex crate, no fast lane): the `#[cfg(not(feature = "regex"))]` twins of maybe_replace_delimiter
    & co. are different source text.  Field-mode command lines that need neither -e nor -c must print the same bytes on both builds."""
    from cases import rand_cli, _fix_M
    from common import build_tuc, build_tuc_noregex, run_cli
    rng = chk.rng
    a, b = build_tuc(release=False), build_tuc_noregex()
    cs = []
    while len(cs) < (800 if chk.tier == "quick" else 8000):
        argv, inp, c = rand_cli(rng)
        argv = _fix_M(argv, c)
        if not argv or c.get("bt", "f") != "f" or "-e" in argv:
            continue
        if rng.random() < 0.4:
            # -r with runs of delimiters (parts that are exactly one delimiter, empty neighbours)
            d = c.get("d") or b"\t"
            inp = rng.choice([b"a", b"", b"x"]) + d * rng.randint(2, 4) + rng.choice([b"b", b""]) + (b"\0" if c.get("z") else b"\n") + inp
            if "-r" not in argv and "--json" not in argv:
                argv = argv + ["-r", rng.choice([";", "<->", ""])]
        cs.append((argv, inp))
    ra, rb = run_cli(a, cs), run_cli(b, cs)
    for (argv, inp), x, y in zip(cs, ra, rb):
        chk.evaluations += 1
        chk.count("other-build")
        chk.nontrivial_add(("other-build", tuple(argv), inp))
        if x != y:
            chk.report_oracle("the build without default features prints something else than the default build",
                              {"argv": argv, "stdin_hex": inp.hex(), "default_build": [x[0], x[1].hex()], "no_default_features_build": [y[0], y[1].hex()]})


def run(chk):
    other_build(chk)
    # thorough = several independent rounds of the same generators (the PRNG keeps advancing), so that memory stays bounded
    for _round in range(1 if chk.tier == "quick" else 6):
        _run_once(chk)
