"""C02 — the one-byte fast path is indistinguishable from the general path.
Oracle: read_and_cut_text_as_bytes vs read_and_cut_str on the same Opt (in-process)."""
from cases import evaluate, rand_field_case, run_corpus
from common import case_line, build_tuc, build_tuc_nofast, run_cli
from gen import bytes_upto

LEVEL = "proof"
LYING = lambda a: not any(x in a for x in ("-b", "-l", "-c", "-M"))        # which command lines of cases.rand_cli the lying-size stdin scenario keeps
COUNTS = ["f"]        # modes of cases.count_thresholds
BIG_IO = lambda a: "-f" in a and not any(x in a for x in ("-M", "-g", "-p", "-m", "-r", "--json"))        # which command lines of cases.rand_cli the large-input stream keeps


def _run_once(chk):
    chk.rule = ("fast-path domain: 1-byte ASCII delimiters, bounds ascending/descending/repeated/negative/mixed/open/formatted/with fallbacks, "
                "subsets of -j -s -z -t --fallback-oob; each case is run through both entry points; lists whose right-most bound is "
                "below/equal/above the field count exercise the early stop; non-trivial = selects a byte or fails")
    run_corpus(chk)
    rng = chk.rng
    n = 40000 if chk.tier == "quick" else 400000
    fast, slow = [], []
    for _ in range(n):
        c = rand_field_case(rng, eng="fast", allow=("t", "s", "j", "z", "fb"), delims=[b"-", b"\t", b",", b"a"], k=5)
        fast.append(c)
        d = dict(c)
        d["eng"] = "str"
        slow.append(d)
    # exhaustive small records × early-stop sensitive bounds
    L = 6 if chk.tier == "quick" else 8
    pool = ["1", "2", "3", "1,2", "2,1", "3,1", "1:2", "2:3", ":2", "2:", "-1", "1,-1", "2,2", "{2}x{1}", "3=F", "1:3=F,2", "-2:3"]
    for rec in bytes_upto([b"-", b"x"], L):
        for b in pool:
            for o in ({}, {"j": True}, {"s": True}, {"t": "b"}, {"fb": b"G"}):
                c = {"kind": "cut", "eng": "fast", "d": b"-", "b": b, "in": rec + b"\n"}
                c.update(o)
                fast.append(c)
                d = dict(c)
                d["eng"] = "str"
                slow.append(d)
    for c in fast[:3] + fast[-2:]:
        chk.sample(case_line(c))
    _, fi, _ = evaluate(chk, fast, "K-fast", spec=True)
    ls, si, _ = evaluate(chk, slow, "K-general", spec=False, count=False)
    for c, a, b, l in zip(fast, fi, si, ls):
        if a in ("inapplicable", "badbounds"):
            chk.count("skipped:" + a)
            continue
        if a != b:
            chk.report_oracle("fast path and general path differ on the same options and input",
                              {"case": case_line(c), "case_b": l, "fast": a, "general": b})

    if chk.tier == "thorough":
        # the two BUILDS: default features vs --no-default-features --features regex (no fast lane at all), real binaries
        from cases import rand_cli
        a, b = build_tuc(release=False), build_tuc_nofast()
        trip = []
        while len(trip) < 20000:
            argv, inp, c = rand_cli(rng)
            if argv and not c.get("M") and not any(x in argv for x in ("-c", "-b", "-l")):
                trip.append((argv, inp))
        ra, rb = run_cli(a, trip), run_cli(b, trip)
        for (argv, inp), x, y in zip(trip, ra, rb):
            chk.evaluations += 1
            chk.count("cli:two-builds")
            if x != y:
                chk.report_oracle("the default build and the build without the fast lane differ",
                                  {"argv": argv, "stdin_hex": inp.hex(), "default_build": [x[0], x[1].hex()], "no_fast_lane_build": [y[0], y[1].hex()]})


def run(chk):
    # thorough = several independent rounds of the same generators (the PRNG keeps advancing), so that memory stays bounded
    for _round in range(1 if chk.tier == "quick" else 6):
        _run_once(chk)
