"""C16 — a regex delimiter splits at its matches and is replaced literally.
Direct oracle: the reading of the statement executed in python on match positions obtained from an
INDEPENDENT engine (python's `re`, same leftmost-first semantics on this family) — splitting,
trimming, compressing and replacing are done by the oracle.  The real `regex` crate's match
positions (RE and (RE)+) are compared with python's and with the Lean model's matcher on every
case, and the contract the theorems assume of a matcher (sorted, non-overlapping, non-empty, in
range, greedy = maximal runs of adjacent normal matches) is checked on the real engine."""
import re

from cases import evaluate, run_corpus, resolve_py
from common import case_line, parse_result, run_impl, run_model, cmp_model
from gen import bound_text, sides, wellformed_bound, pick_side

LEVEL = "proof"

FAMILY = [(b"-", b"-xy"), (b"[-,]", b"-,xy"), (b"-|,,", b"-,xy"), (b",,|,", b",xy"), (b"-+", b"-xy"), ("é".encode(), "éxy".encode()),
          (b"ab|a", b"abx"), (b"(-|,)+", b"-,x"), (b"a(b|cc)", b"abcx"), (b"\\|", b"|xy"), ("é|,".encode(), "é,x".encode()),
          # texts that end in `+` without the `+` binding the whole pattern: RE and (RE)+ differ on runs
          (b"ab+", b"abx"), (b"-|,+", b"-,x"), (b"\\+", b"+xy"), (b", +", b", x")]
# whole matches of the multi-byte members of the family
MATCH_ATOMS = {b"ab+": [b"ab", b"abb"], b", +": [b", ", b",  "], b"-|,+": [b"-", b",,"], b"ab|a": [b"ab", b"a"], b"a(b|cc)": [b"ab", b"acc"],
               b"-|,,": [b"-", b",,"], b",,|,": [b",,", b","], b"(-|,)+": [b"-,", b",-"], b"\\+": [b"+"]}
REPLS = [b"/", b"::", b"", b"$0x", b"-", b",-", b"\\1"]


class _M:
    def __init__(self, a, b, text):
        self._a, self._b, self._t = a, b, text

    def start(self):
        return self._a

    def end(self):
        return self._b

    def group(self, _k=0):
        return self._t


class UniRx:
    """a python `str` regex (Unicode classes: \\s \\d \\w, negated classes and `.` over whole characters) behind the bytes interface the
    oracle uses: offsets are converted to byte offsets of the UTF-8 text (inputs of this stream are valid UTF-8 by construction)"""

    def __init__(self, pattern):
        self.rx = re.compile(pattern)

    def finditer(self, data):
        text = data.decode("utf-8")
        off = [0]
        for ch in text:
            off.append(off[-1] + len(ch.encode("utf-8")))
        for m in self.rx.finditer(text):
            yield _M(off[m.start()], off[m.end()], data[off[m.start()]:off[m.end()]])

    def sub(self, fn, data):
        out, pos = b"", 0
        for m in self.finditer(data):
            if m.end() == m.start():
                continue
            out += data[pos:m.start()] + fn(m)
            pos = m.end()
        return out + data[pos:]


def mk_rx(cfg, greedy):
    if cfg.get("uni"):
        t = cfg.get("py") or cfg["re"].decode("utf-8")
        return UniRx("(?:" + t + ")+" if greedy else t)
    return re.compile(b"(?:" + cfg["re"] + b")+" if greedy else cfg["re"])


def gaps(line, rx):
    f, s, pos = [], [], 0
    for m in rx.finditer(line):
        if m.end() == m.start():
            continue
        f.append(line[pos:m.start()])
        s.append(m.group(0))
        pos = m.end()
    f.append(line[pos:])
    return f, s


def spec_record(rec, cfg):
    n_rx = mk_rx(cfg, False)
    g_rx = mk_rx(cfg, True)
    # cut_str refuses these option sets before looking at the record ("fails on the first record", C19)
    if cfg["p"] and cfg["r"] is None:
        return b"", False
    if (cfg["j"] or cfg["r"] is not None) and cfg["r"] is None:
        return b"", False
    if cfg["t"]:
        ms = list(g_rx.finditer(rec))
        a, b = 0, len(rec)
        if cfg["t"] in "lb" and ms and ms[0].start() == 0:
            a = ms[0].end()
        if cfg["t"] in "rb" and ms and ms[-1].end() == len(rec):
            b = max(ms[-1].start(), a)
        rec = rec[a:b]
    if rec == b"":
        return (b"" if cfg["s"] else b"\n"), True
    R = cfg["r"]
    if cfg["p"]:
        if R is None:
            return b"", False
        rec = g_rx.sub(lambda m: R, rec)
        if R == b"":
            f = [b""] + [bytes([x]) for x in rec] + [b""] if rec else []
            s = [b""] * (len(f) - 1)
        elif cfg["g"]:
            f, s = gaps(rec, re.compile(b"(?:" + re.escape(R) + b")+"))
        else:
            f = rec.split(R)
            s = [R] * (len(f) - 1)
        lit = True
    else:
        f, s = gaps(rec, g_rx if cfg["g"] else n_rx)
        lit = False
    n = len(f)
    if cfg["s"] and n == 1:
        return b"", True
    join = cfg["j"] or R is not None
    if join and R is None:
        return b"", False
    out = b""
    bounds = cfg["bounds"]
    if cfg["m"]:
        nb = []
        for (l, r, fb) in bounds:
            rr = resolve_py(l, r, n)
            if rr is None:
                nb.append((l, r, fb))
                continue
            lo, hi = rr
            if lo > 1:
                nb.append((1, lo - 1, None))
            if hi < n:
                nb.append((hi + 1, n, None))
        if not nb:
            return out, False
        bounds = nb
    for i, (l, r, fb) in enumerate(bounds):
        rr = resolve_py(l, r, n)
        if rr is None:
            if fb is not None:
                piece = fb
            elif cfg["fb"] is not None:
                piece = cfg["fb"]
            else:
                return out, False
        else:
            lo, hi = rr
            piece = b""
            for k in range(lo - 1, hi):
                piece += f[k]
                if k < hi - 1:
                    piece += s[k]
            if R is not None and not lit:
                piece = n_rx.sub(lambda m: R, piece)
        out += piece
        if join and i < len(bounds) - 1:
            out += R
    return out + b"\n", True


def spec_run(inp, cfg):
    eol = b"\0" if cfg.get("z") else b"\n"
    recs = inp.split(eol)
    if recs[-1] == b"":
        recs.pop()
    out = b""
    for r in recs:
        o, ok = spec_record(r, cfg)
        if ok and o and cfg.get("z"):
            o = o[:-1] + eol          # (spec_record ends a record with LF)
        out += o
        if not ok:
            return "fail", out
    return "ok", out


def _run_once(chk):
    chk.rule = ("regex family {-, [-,], -|,, (alternation of different lengths), ,,|, , -+, é, ab|a, (-|,)+, a(b|cc), \\|, é|,, ab+, -|,+, \\+, ', +'} × records over the "
                "regex's own alphabet (plus, in a quarter of the cases, the replacement text itself) × bounds with sides in ±4/open and fallbacks × subsets of -g, -t l|r|b, -p -r R, -r R (R ∈ {/, ::, empty, $0x, -, ',-', "
                "\\1}), -s, -m, -j; on the real binary also \\s \\d \\w / negated classes / `.` on alphabets with NBSP, U+3000, U+0663, é, 😎; match positions of the real engine compared with python's re and the Lean matcher on every record; "
                "non-trivial = selects a byte or fails")
    run_corpus(chk)
    rng = chk.rng
    n = 30000 if chk.tier == "quick" else 300000
    cases, cfgs, M = [], [], []
    for _ in range(n):
        rx, alpha = rng.choice(FAMILY)
        rsel = rng.choice(REPLS) if rng.random() < 0.5 else None
        atoms = ([alpha[i:i + 1] for i in range(len(alpha))] if not alpha.startswith("é".encode()) and b"\xc3" not in alpha
                 else [c.encode() for c in alpha.decode()])
        if rsel and rng.random() < 0.5:
            atoms = atoms + [rsel, rsel]          # the replacement text itself occurs in the records (next to matches, doubled …)
        if rx in MATCH_ATOMS and rng.random() < 0.6:
            atoms = atoms + MATCH_ATOMS[rx] * 2   # whole matches as atoms: runs of ADJACENT matches are what -g / -t / -p look at
        recs = []
        for _ in range(rng.randint(1, 3)):
            rec = b"".join(rng.choice(atoms) for _ in range(rng.randint(0, 8)))
            recs.append(rec)
        inp = b"\n".join(recs) + (b"\n" if rng.random() < 0.6 else b"")
        bs = []
        for _ in range(rng.randint(1, 3)):
            while True:
                l, r = pick_side(rng, 4), pick_side(rng, 4)
                single = rng.random() < 0.4
                if single:
                    if l is None:
                        continue
                    r = l
                if wellformed_bound(l, r):
                    break
            fb = rng.choice(["F", None, None, None])
            bs.append((l, r, fb, single))
        cfg = {"re": rx, "g": rng.random() < 0.3, "t": rng.choice([None, None, "l", "r", "b"]), "p": False, "s": rng.random() < 0.2,
               "m": rng.random() < 0.15, "j": rng.random() < 0.2, "r": rsel,
               "fb": rng.choice([None, None, b"G"]), "bounds": [(l, r, fb.encode() if fb is not None else None) for (l, r, fb, _) in bs]}
        if cfg["r"] is not None and rng.random() < 0.4:
            cfg["p"] = True
        elif rng.random() < 0.03:
            cfg["p"] = True
        c = {"kind": "cut", "eng": rng.choice(["str", "auto"]), "d": b"\t", "re": rx.decode(), "b": ",".join(bound_text(*b) for b in bs), "in": inp,
             "g": cfg["g"], "t": cfg["t"], "p": cfg["p"], "s": cfg["s"], "m": cfg["m"], "j": cfg["j"] or cfg["r"] is not None, "r": cfg["r"], "fb": cfg["fb"]}
        cases.append(c)
        cfgs.append(cfg)
        for rec in recs:
            M.append({"kind": "rematch", "re": rx.decode(), "in": rec, "meta": (rx, rec)})
    for c in cases[:4]:
        chk.sample(case_line(c))
    lines = [case_line(c) for c in cases]
    impl = run_impl(lines)
    model = run_model(lines)
    for c, cfg, l, i, (m, _s) in zip(cases, cfgs, lines, impl, model):
        chk.evaluations += 1
        ist, iout = parse_result(i)
        chk.count("cut:" + ist)
        if ist != "ok" or len(iout) >= 2:
            chk.nontrivial_add(l)
        if ist not in ("ok", "fail"):
            chk.report_oracle("regex cut panics / is not applicable", {"case": l, "implementation": i})
            continue
        est, eout = spec_run(c["in"], cfg)
        if est != ist or (est == "ok" and eout != iout):
            chk.report_oracle("output differs from the reading of the statement (python oracle over an independent regex engine)",
                              {"case": l, "implementation": i, "expected": f"{est} {eout.hex()}", "model": m})
    cmp_model(chk, cases, impl, model, "K-regex")
    # the RegexBag itself (RE and "(RE)+") is built by main: the real binary, end to end, on a sample of the cases
    from common import build_tuc, run_cli
    tuc = build_tuc(release=False)
    sample_idx = list(range(0, len(cases), max(1, len(cases) // (3000 if chk.tier == "quick" else 30000))))
    plus = [k for k, c in enumerate(cases) if (c["re"].endswith("+") or "(" in c["re"]) and (cfgs[k]["g"] or cfgs[k]["t"] or cfgs[k]["p"])]
    sample_idx = sorted(set(sample_idx) | set(plus[: (3000 if chk.tier == "quick" else 30000)]))
    cli = []
    for k in sample_idx:
        c, cfg = cases[k], cfgs[k]
        argv = ["-e", c["re"], "-f", c["b"]]
        for fl, key in (("-g", "g"), ("-p", "p"), ("-s", "s"), ("-m", "m")):
            if cfg[key]:
                argv.append(fl)
        if cfg["j"]:
            argv.append("-j")
        if cfg["t"]:
            argv += ["-t", cfg["t"]]
        if cfg["r"] is not None:
            argv += ["-r", cfg["r"].decode()]
        if cfg["fb"] is not None:
            argv += ["--fallback-oob", cfg["fb"].decode()]
        cli.append((argv, c["in"], k))
    for (argv, inp, k), (st, out) in zip(cli, run_cli(tuc, [(a, i) for a, i, _ in cli])):
        chk.evaluations += 1
        chk.count("cli")
        est, eout = spec_run(inp, cfgs[k])
        if st != ("0" if est == "ok" else "1") or (est == "ok" and out != eout):
            chk.report_oracle("CLI: output differs from the reading of the statement (python oracle over an independent regex engine)",
                              {"argv": argv, "stdin_hex": inp.hex(), "binary": [st, out.hex()], "expected": f"{est} {eout.hex()}"})
    # Unicode classes: an ASCII-looking pattern (\\s \\d \\w, a negated class, `.`) describes non-ASCII text too — NBSP and U+3000 are blanks,
    # U+0663 is a digit, é is a word character, `[^a]` and `.` consume whole characters.  Real binary only (the regex pair is built by
    # main), oracle: python's `str` regexes on alphabets where the two engines' classes agree.
    UNI = [("\\s+", ["a", "b", " ", "\t", "\u00a0", "\u3000"]), ("\\s", ["a", " ", "\u00a0", "\u3000"]), ("[\\s,]+", ["a", ",", " ", "\u00a0"]),
           ("\\d+", ["a", "1", "2", "\u0663", "-"]), ("\\w+", ["a", "é", "_", "-", " ", "\u0663"]), ("[^a]+", ["a", "é", "😎", "b"]),
           ("-.", ["-", "a", "é", "\u00a0"]), ("\\S+", ["a", "é", " ", "\u00a0"]),
           # `.` and the anchors are where a regex looks at LINES: under -z a record may contain LF, and nothing about the expression may change
           # (`.` still does not match LF, `^` / `$` are the ends of the RECORD) — python spelling of the anchors: \A, \Z
           (".-", ["-", "a", "\n", "b"]), ("-.", ["-", "a", "\n"]), ("a.b", ["a", "b", "\n", "-"]),
           ("^-", ["-", "a", "\n"], "\\A-"), (";$", [";", "a", "\n"], ";\\Z"), ("^ +| +$", [" ", "a", "\n"], "\\A +| +\\Z")]
    ucli = []
    for _ in range(600 if chk.tier == "quick" else 6000):
        rxs, alpha, *pyx = rng.choice(UNI)
        z = "\n" in alpha or rng.random() < 0.15
        eol = b"\0" if z else b"\n"
        recs = ["".join(rng.choice(alpha) for _ in range(rng.randint(0, 7))).encode() for _ in range(rng.randint(1, 3))]
        inp = eol.join(recs) + (eol if rng.random() < 0.7 else b"")
        l, r = rng.choice([(1, 1), (2, 2), (1, None), (2, 3), (-1, -1), (None, 2), (3, 3)])
        cfg = {"uni": True, "re": rxs.encode(), "g": rng.random() < 0.3, "t": rng.choice([None, None, "l", "r", "b"]), "p": False, "s": rng.random() < 0.2,
               "m": False, "j": rng.random() < 0.2, "r": rng.choice([None, None, b"/", b"::"]), "fb": rng.choice([None, b"G"]),
               "bounds": [(l, r, None)], "z": z, "py": pyx[0] if pyx else None}
        if cfg["r"] is not None and rng.random() < 0.3:
            cfg["p"] = True
        argv = ["-e", rxs, "-f", bound_text(l, r, None, l == r)] + (["-z"] if z else [])
        for fl, key in (("-g", "g"), ("-p", "p"), ("-s", "s"), ("-j", "j")):
            if cfg[key]:
                argv.append(fl)
        if cfg["t"]:
            argv += ["-t", cfg["t"]]
        if cfg["r"] is not None:
            argv += ["-r", cfg["r"].decode()]
            cfg["j"] = True
        if cfg["fb"] is not None:
            argv += ["--fallback-oob", cfg["fb"].decode()]
        ucli.append((argv, inp, cfg))
    for (argv, inp, cfg), (st, out) in zip(ucli, run_cli(tuc, [(a, i) for a, i, _ in ucli])):
        chk.evaluations += 1
        chk.count("cli-unicode-classes")
        chk.nontrivial_add(("uni", tuple(argv), inp))
        est, eout = spec_run(inp, cfg)
        if st != ("0" if est == "ok" else "1") or (est == "ok" and out != eout):
            chk.report_oracle("CLI: a Unicode class of the regex (\\s \\d \\w, a negated class, `.`) is not applied to non-ASCII text as the regex says",
                              {"argv": argv, "stdin_hex": inp.hex(), "binary": [st, out.hex()], "expected": f"{est} {eout.hex()}"})
    # the matcher: real engine vs python's re vs the Lean model; and the contract
    ml = [case_line(c) for c in M]
    mi = run_impl(ml)
    mm = run_model(ml)
    for c, l, i, (m, _s) in zip(M, ml, mi, mm):
        rx, rec = c["meta"]
        chk.evaluations += 1
        chk.count("rematch")

        def fmt(ms):
            return ",".join(f"{a}:{b}" for a, b in ms)
        pn = [(x.start(), x.end()) for x in re.finditer(rx, rec) if x.end() > x.start()]
        pg = [(x.start(), x.end()) for x in re.finditer(b"(?:" + rx + b")+", rec) if x.end() > x.start()]
        exp = f"ok n={fmt(pn)} g={fmt(pg)}"
        if i != exp:
            chk.report_tie("K-regex: the real engine's match positions differ from python's re (the oracle's engine is not independent-equivalent here)",
                           {"component": "K-regex-engine", "case": l, "implementation": i, "python": exp})
        if m != "unmodelled":
            chk.disagreements_checked += 1
            if i != m:
                chk.report_tie("K-regex: the Lean matcher differs from the real engine", {"component": "K-regex-matcher", "case": l, "implementation": i, "model": m})
        # contract on the real engine's answer
        try:
            parts = dict(p.split("=", 1) for p in i.split(" ")[1:])
            nm = [tuple(map(int, x.split(":"))) for x in parts.get("n", "").split(",") if x]
            gm = [tuple(map(int, x.split(":"))) for x in parts.get("g", "").split(",") if x]
        except ValueError:
            continue
        ok = all(a < b <= len(rec) for a, b in nm) and all(nm[k][1] <= nm[k + 1][0] for k in range(len(nm) - 1))
        runs = []
        for a, b in nm:
            if runs and runs[-1][1] == a:
                runs[-1] = (runs[-1][0], b)
            else:
                runs.append((a, b))
        if not ok or runs != gm:
            chk.count("contract:greedy-not-runs" if ok else "contract:broken")
        # hypothesis `GreedyTiled` of regexCut_replace_greedy_eq_spec (Props/C16Greedy.lean) on the REAL engine's two match lists:
        # every match of RE lies inside a match of (RE)+, and every match of (RE)+ is tiled exactly by the matches of RE inside it
        covered = all(any(g0 <= a and b <= g1 for g0, g1 in gm) for a, b in nm)
        tiled = True
        for g0, g1 in gm:
            pos = g0
            for a, b in [(a, b) for a, b in nm if g0 <= a and b <= g1]:
                if a != pos:
                    tiled = False
                pos = b
            if pos != g1:
                tiled = False
        chk.count("hypothesis:GreedyTiled-holds" if covered and tiled else "hypothesis:GreedyTiled-fails")


EMPTY_CAPABLE = [(" *", b"ab "), (",?", b"ab,"), ("-*", b"xy-"), ("x*", b"xa-"), ("(-|,)*", b"a-,b")]


def empty_match_stream(chk):
    """expressions that can match the EMPTY string (` *`, `,?`, `-*` — `\s*` and `,?` are what people write).  "Splits at its matches" then includes the
    zero-width matches the engine reports (at the record's edges, between two characters): every one of them is a field boundary.  Regex engines
    disagree about which empty matches exist next to a non-empty one, so python's `re` cannot be the oracle here: the specification is executed over
    the match positions of the REAL engine (harness kind `rematch`, the find_iter the cutter itself calls) — what is decided is the cutter's use of
    them (the splitter, the field count every bound is resolved against, the fallbacks), not the engine.  Plain splitting only: no -r / -p / -t."""
    rng = chk.rng
    n = 4000 if chk.tier == "quick" else 40000
    cases, metas, M = [], [], []
    for _ in range(n):
        rx, alpha = rng.choice(EMPTY_CAPABLE)
        atoms = [alpha[i:i + 1] for i in range(len(alpha))]
        recs = [b"".join(rng.choice(atoms) for _ in range(rng.randint(0, 6))) for _ in range(rng.randint(1, 3))]
        inp = b"\n".join(recs) + (b"\n" if rng.random() < 0.6 else b"")
        bs = []
        for _ in range(rng.randint(1, 3)):
            while True:
                l, r = pick_side(rng, 5), pick_side(rng, 5)
                single = rng.random() < 0.5
                if single:
                    if l is None:
                        continue
                    r = l
                if wellformed_bound(l, r):
                    break
            bs.append((l, r, rng.choice(["F", None, None]), single))
        g = rng.random() < 0.3
        sflag = rng.random() < 0.2
        gfb = rng.choice([None, None, b"G"])
        c = {"kind": "cut", "eng": rng.choice(["str", "auto"]), "d": b"\t", "re": rx, "b": ",".join(bound_text(*b) for b in bs), "in": inp,
             "g": g, "s": sflag, "fb": gfb}
        cases.append(c)
        metas.append((recs if inp.endswith(b"\n") or recs[-1] != b"" else recs, bs, g, sflag, gfb))
        for rec in recs:
            M.append({"kind": "rematch", "re": rx, "in": rec})
    lines = [case_line(c) for c in cases]
    impl = run_impl(lines)
    ml = [case_line(c) for c in M]
    mi = run_impl(ml)
    pos = {}
    for c, i in zip(M, mi):
        try:
            parts = dict(p.split("=", 1) for p in i.split(" ")[1:])
            pos[(c["re"], c["in"])] = tuple([tuple(map(int, x.split(":"))) for x in parts.get(k, "").split(",") if x] for k in ("n", "g"))
        except ValueError:
            pos[(c["re"], c["in"])] = None
    for c, l, i, (recs, bs, g, sflag, gfb) in zip(cases, lines, impl, metas):
        chk.evaluations += 1
        chk.count("empty-capable-regex")
        chk.nontrivial_add(l)
        ist, iout = parse_result(i)
        # the records as the reader delivers them: a final empty piece after the last EOL is not a record
        rs = c["in"].split(b"\n")
        if rs and rs[-1] == b"":
            rs.pop()
        out, ok = b"", True
        for rec in rs:
            if rec == b"":
                out += b"" if sflag else b"\n"
                continue
            pp = pos.get((c["re"], rec))
            if pp is None:
                ok = None
                break
            f, p0 = [], 0
            for a, b in pp[1 if g else 0]:
                f.append((p0, a))
                p0 = b
            f.append((p0, len(rec)))
            nf = len(f)
            if sflag and nf == 1:
                continue
            piece_out = b""
            for (l_, r_, fb, _single) in bs:
                rr = resolve_py(l_, r_, nf)
                if rr is None:
                    if fb is not None:
                        piece_out += fb.encode()
                    elif gfb is not None:
                        piece_out += gfb
                    else:
                        ok = False
                        break
                else:
                    piece_out += rec[f[rr[0] - 1][0]:f[rr[1] - 1][1]]
            if not ok:
                break
            out += piece_out + b"\n"
        if ok is None:
            continue
        est = "ok" if ok else "fail"
        if ist != est or (ok and iout != out):
            chk.report_oracle("a regex that can match the empty string: the record is not split at the matches the engine reports (zero-width ones included)",
                              {"case": l, "implementation": i, "expected": f"{est} {out.hex()}", "engine_matches": "harness kind rematch on each record"})


def run(chk):
    empty_match_stream(chk)
    # thorough = several independent rounds of the same generators (the PRNG keeps advancing), so that memory stays bounded
    for _round in range(1 if chk.tier == "quick" else 6):
        _run_once(chk)
