"""C13 — an out-of-range bound is never silent: own fallback, else generic, else failure.
Oracle: implementation vs the executed specification (whose `emit` *is* that rule) on every
mode/path, with bounds lists in which any subset of bounds is unresolvable; plus cross-engine
agreement (same request through every engine that accepts it)."""
from cases import evaluate, run_corpus, normalise_field_case, lines_straddle_with_fallback
from common import case_line, parse_result
from gen import bound_text, sides, wellformed_bound, pick_side

LEVEL = "proof"
KEY = "lines-fwd-straddling-range-with-fallback"
KEY_M = "stream-straddling-range-with-fallback"


def stream_straddle_with_fallback(c):
    """KNOWN FINDING matcher: -M, a closed range l ≤ n < r straddling the end of some record, with a fallback"""
    from cases import parse_plain_bounds, split_records, nfields
    if c.get("eng") != "stream":
        return False
    bs = parse_plain_bounds(c.get("b", ""))
    if not bs:
        return False
    eol = b"\0" if c.get("z") else b"\n"
    for rec in split_records(c.get("in", b""), eol):
        n = nfields(rec, c.get("d", b"-"))
        for l, r, fb in bs:
            lo = 1 if l is None else l
            if r is not None and n > 0 and lo <= n < r and (fb is not None or c.get("fb") is not None):
                return True
    return False


def _run_once(chk):
    chk.rule = ("for n in 0..4 parts: 1-3 bounds with sides in ±(n+2)/open (so each bound independently resolves, overshoots on the left, "
                "on the right, positively or negatively, or crosses), each with own fallback or not, × generic fallback or not, through: "
                "-f general path, fast path, --json, -m, -c, -b, -l (both algorithms; a tenth of the inputs carry a line that is not UTF-8), -M; a third of the runs through a short-writing "
                "writer; non-trivial = some bound unresolvable or output "
                "selects a byte")
    run_corpus(chk)
    rng = chk.rng
    cnt = 40000 if chk.tier == "quick" else 400000
    cases = []
    groups = []
    for _ in range(cnt):
        n = rng.randint(0, 4)
        nb = rng.randint(1, 3)
        bs = []
        for _ in range(nb):
            while True:
                l = pick_side(rng, n + 2)
                r = pick_side(rng, n + 2)
                single = rng.random() < 0.4
                if single:
                    if l is None:
                        continue
                    r = l
                if wellformed_bound(l, r):
                    break
            fb = rng.choice(["F", "a-b", "", " ", "n/a ", "\t", " x", "n=a", "==", "C:\\tmp\\new", "a\\nb", None, None, None, None, None])      # verbatim: blanks at either end included
            bs.append((l, r, fb, single))
        btxt = ",".join(bound_text(*b) for b in bs)
        generic = rng.choice([None, None, b"G", b""])
        mode = rng.choice(["str", "fast", "json", "m", "c", "b", "l", "M", "fmt"])
        z = rng.random() < 0.15
        eol = b"\0" if z else b"\n"
        parts = [rng.choice([b"x", b"y", b"xy", b""]) for _ in range(n)]
        c = {"kind": "cut", "b": btxt, "fb": generic, "z": z}
        if mode in ("str", "fast", "json", "m", "M", "fmt"):
            d = b"-"
            rec = d.join(parts)
            inp = (rec + eol) * rng.randint(1, 2) if n > 0 else eol
            if n > 0 and rng.random() < 0.3:
                inp = inp[:-1]            # final record without EOL (possibly ending in a delimiter)
            c.update({"eng": {"str": "str", "fast": "fast", "json": "str", "m": "str", "M": "stream", "fmt": "auto"}[mode], "d": d, "in": inp})
            if mode == "json":
                c["json"] = True
            if mode == "m":
                c["m"] = True
            if mode == "fmt":
                c["b"] = "<" + "".join("{" + bound_text(*b) + "}|" for b in bs)
            if mode in ("str", "fast", "m") and rng.random() < 0.4:
                c["j"] = True
            if mode == "str" and rng.random() < 0.3:
                c["r"] = b"/"
            if mode == "M":
                c["seg"] = [rng.randint(1, 4) for _ in range(len(inp))]
        elif mode == "c":
            chars = "".join(rng.choice(["a", "é", "😎"]) for _ in range(n)).encode()
            c.update({"eng": "str", "bt": "c", "d": b"", "in": chars + eol, "j": True, "r": b""})
        elif mode == "b":
            c.update({"eng": "bytes", "bt": "b", "d": b"", "in": bytes(rng.choice([0, 10, 97, 255]) for _ in range(n))})
            c.pop("z")
        else:
            ls = [rng.choice([b"a", b"bc"]) for _ in range(n)]
            if n == 0:
                continue
            if rng.random() < 0.1:
                # a line that is not UTF-8: -l must refuse it (status 1) — never answer it with a fallback as if the input had ended
                k = rng.randrange(n)
                ls[k] = ls[k] + b"\xff"
                c["meta"] = {"invalid_utf8_line": True}
            c.update({"eng": "lines", "bt": "l", "d": eol, "in": eol.join(ls) + eol, "j": rng.random() < 0.8})
        cases.append(normalise_field_case(c))
    for c in cases[:5]:
        chk.sample(case_line(c))
    for c in cases:
        if "seg" not in c and rng.random() < 0.33:
            c["sw"] = rng.randint(1, 3)          # short writes (see cases.evaluate)
    lines = [case_line(c) for c in cases]
    # evaluate() with spec oracle, but route the known finding
    from common import run_impl, run_model, cmp_model
    impl = run_impl(lines)
    model = run_model(lines)
    for c, l, i, (m, s) in zip(cases, lines, impl, model):
        chk.evaluations += 1
        ist, iout = parse_result(i)
        chk.count(f"{c['eng']}:{ist}")
        if ist != "ok" or len(iout) >= 2:
            chk.nontrivial_add(l)
        if s in ("-", "") or i in ("badbounds", "inapplicable"):
            continue
        sst, sout = parse_result(s)
        bad = False
        if ist in ("panic", "hang", "killed"):
            bad = True
        elif (c.get("meta") or {}).get("invalid_utf8_line"):
            bad = ist == "ok" and i != s        # refusing the input is right; answering with anything but the selected lines is not
        elif sst == "ok":
            bad = i != s
        else:
            bad = ist != sst
        if bad:
            key = KEY if lines_straddle_with_fallback(c) else (KEY_M if stream_straddle_with_fallback(c) else None)
            chk.report_oracle("a bound that cannot be resolved is not handled by the fallback rule",
                              {"case": l, "implementation": i, "specification": s}, finding_key=key)
    cmp_model(chk, cases, impl, model, "K-engines")


def run(chk):
    # regexes that can match the empty string: the field count every bound is resolved against comes from the engine's matches, the zero-width ones
    # included (a resolvable bound must never print a fallback, an unresolvable one must never be silent) — the stream of C16, same oracle
    from props.c16 import empty_match_stream
    empty_match_stream(chk)
    # thorough = several independent rounds of the same generators (the PRNG keeps advancing), so that memory stays bounded
    for _round in range(1 if chk.tier == "quick" else 6):
        _run_once(chk)
