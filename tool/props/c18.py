"""C18 — the bounds mini-language is accepted, rejected and rendered as documented.
Oracle: UserBoundsList::from_str (implementation) vs the executed grammar `Spec.specParse`
(lexer with maximal munch + token parser, independent of the scanner) on EVERY string up to a
length bound over the statement's alphabet and on random longer strings; rendering: format strings
through main's dispatch on probe records vs the executed per-record specification; rejected
strings produce no output whatever the input."""
import re

from cases import evaluate, run_corpus
from common import case_line, parse_result
from gen import strings_upto

LEVEL = "proof"
ALPHA = list("120-+:={},\\na ") + ["é"]


def run(chk):
    L = 4 if chk.tier == "quick" else 5
    chk.rule = (f"every string of ≤ {L} symbols over {{1,2,0,-,+,:,=,{{,}},comma,backslash,n,a,space,é}} (exhaustive) + random strings of 6-14 symbols "
                "biased to near-valid format strings + boundary integers; accept/reject and the parsed list compared with the grammar; every accepted "
                "string of the exhaustive stream up to length 4 is also rendered on probe records (cut through main's dispatch) against the executed "
                "specification; a sample of accepted strings and 2500 strings that look like flag clusters (leading '-', letters g j m p s z h V) as a command-line value of "
                "the real binary vs the library on the same text; non-trivial = string of length ≥ 2; distinct by string")
    run_corpus(chk)
    rng = chk.rng
    strs = list(strings_upto(ALPHA, L))
    chk.exhaustive = True
    for _ in range(30000 if chk.tier == "quick" else 300000):
        k = rng.randint(6, 14)
        pieces = ["{", "}", "{{", "}}", "1", "2", "-1", ":", ",", "=x", "a", "\\n", "\\t", " ", "é", "0", "+3", "2147483647", "2147483648",
                  "-2147483648", "-2147483649", "3:1", "-3:2", "{1}", "{2:3}", "{1,2}", "{:2=f}", "Ż", "Ž", "ĺ", "Ľ", "ı", "=n=a", "46341", "65536", "-65536", "100000"]
        strs.append("".join(rng.choice(pieces) for _ in range(rng.randint(1, 6)))[:k + 8])
    # every pair of EDGE numbers on the two sides of a range (sign tests, `right < left`, products and negations of sides are where the width of
    # i32 shows: 46341² and 65536² leave the range, -(-2^31) does not exist), plain, with a fallback, inside braces
    EDGE = [1, -1, 2, -2, 3, 46340, 46341, -46341, 65536, -65536, 2147483646, 2147483647, -2147483647, -2147483648, 0, 2147483648, -2147483649]
    for a in EDGE:
        for t in (f"{a}", f"{a}:", f":{a}"):
            strs += [t, t + "=x", "{" + t + "}"]
        for b in EDGE:
            t = f"{a}:{b}"
            strs += [t, t + "=x", "a{" + t + "=y}b", "1," + t]
    cases = [{"kind": "parse", "s": s} for s in strs]
    lines = [case_line(c) for c in cases]
    from common import run_impl, run_model, cmp_model
    impl = run_impl(lines)
    model = run_model(lines)
    accepted = []
    for c, l, i, (m, s) in zip(cases, lines, impl, model):
        chk.evaluations += 1
        st = i.split(" ")[0]
        chk.count("parse:" + st)
        if len(c["s"]) >= 2:
            chk.nontrivial_add(c["s"])
        if st not in ("ok", "fail"):
            chk.report_oracle("parsing a bounds string panics", {"case": l, "string": c["s"], "implementation": i})
            continue
        # direct oracle: the grammar
        ilist = re.sub(r"^ok L=[^|]*\|", "ok ", i).split(" fwd=")[0] if st == "ok" else "fail"
        if ilist != s:
            chk.report_oracle("accept/reject or the parsed list differs from the grammar", {"case": l, "string": c["s"], "implementation": i, "grammar": s})
        if st == "ok":
            accepted.append(c["s"])
    cmp_model(chk, cases, impl, model, "K-parse")
    for s in strs[5:9]:
        chk.sample({"string": s})
    # rendering on probe records (and: rejected strings never produce output)
    R = []
    probe = b"a-b-c\n\nx\n-y-\n"
    pick = [s for s in accepted if len(s) <= 4] + rng.sample(accepted, min(len(accepted), 4000))
    acc = set(accepted)
    rejected = [s for s in strs if s not in acc]
    for s in pick:
        R.append({"kind": "cut", "eng": "auto", "d": b"-", "b": s, "in": probe})
        R.append({"kind": "cut", "eng": "str", "d": b"-", "b": s, "in": probe, "fb": b"G"})
    lr, ri, _ = evaluate(chk, R, "K-render", spec=True)
    Rj = [{"kind": "cut", "eng": "auto", "d": b"-", "b": s, "in": probe} for s in rng.sample(rejected, min(len(rejected), 3000))]
    lj, ji, _ = evaluate(chk, Rj, "K-reject", spec=False)
    for l, i in zip(lj, ji):
        if i != "badbounds":
            chk.report_oracle("a rejected bounds string reached the cutter", {"case": l, "implementation": i})

    # the same strings as a command-line VALUE of the real binary: what reaches the parser must be the text that was written (pico_args looks
    # flags up inside single-dash arguments; values are taken first, so a value that looks like flags is still a value)
    from common import build_tuc, run_cli
    tuc = build_tuc(release=False)
    flaggy = ["-", "- ", "-1", "-3=", "{1}", "{-1}", ":", "j", "g", "m", "z", "p", "s", "jr", " project: ", "obj", "=jz", "{2=mg}", "x", ",", "h", "V", "=hello", "{1=hV}"]
    vals = []
    for _ in range(2500 if chk.tier == "quick" else 25000):
        v = "".join(rng.choice(flaggy) for _ in range(rng.randint(1, 5)))
        if rng.random() < 0.7 and not v.startswith("-"):
            v = "-" + v
        vals.append(v)
    vals += [x for x in rng.sample(accepted, min(len(accepted), 1500)) if x]
    vals = [v for v in vals if "\0" not in v]
    lib = [{"kind": "cut", "eng": "auto", "d": b",", "b": v, "in": b"a,b,c\n"} for v in vals]
    ll = [case_line(c) for c in lib]
    li = run_impl(ll)
    opt = rng.choice(["-f", "--fields"])
    cres = run_cli(tuc, [(["-d", ",", opt, v], b"a,b,c\n") for v in vals])
    for v, l, i, (st, out) in zip(vals, ll, li, cres):
        chk.evaluations += 1
        chk.count("cli-value")
        chk.nontrivial_add(("cli-value", v))
        ist, iout = parse_result(i)
        if i == "badbounds":
            ok = st == "1" and out == b""
        elif ist in ("ok", "fail"):
            ok = st == ("0" if ist == "ok" else "1") and out == iout
        else:
            ok = True
        if not ok:
            chk.report_oracle("a bounds string given on the command line is not treated as the parser treats that text (altered, or accepted / rejected differently)",
                              {"argv": ["-d", ",", opt, v], "stdin_hex": b"a,b,c\n".hex(), "binary": [st, out.hex()], "library_on_the_same_text": i, "case": l})
