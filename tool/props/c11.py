"""C11 — -z is newline mode with the roles of LF and NUL exchanged.
Oracle: implementation on (args, I) vs implementation on (-z args, τ I), τ = the transposition
(LF NUL): outputs must be τ of each other, statuses equal.  Domain: delimiter, replacement,
format text and fallbacks contain neither byte; --json and -e excluded (DESIGN §5.4)."""
from cases import evaluate, rand_field_case, run_corpus
from common import case_line, parse_result
from gen import rand_bounds

LEVEL = "proof"
BIG_IO = lambda a: "-z" in a        # which command lines of cases.rand_cli the large-input stream keeps
TAU = bytes.maketrans(b"\n\0", b"\0\n")


def _run_once(chk):
    chk.rule = ("modes -f (general path with -g -p -t -s -j -r, fast path, dispatch), -c, -l (both algorithms, -m, --no-join), -M (random "
                "segmentation); inputs over {delimiter bytes, x, y, LF, NUL, CR, 0xFF} (valid UTF-8 for -c/-l) with 1-4 records; each case is "
                "run as given and with -z toggled on the LF↔NUL-swapped input; plus the real binary on random accepted command lines (every mode "
                "incl. -b and --no-join, -m, -M) with and without -z; non-trivial = selects a byte or fails")
    run_corpus(chk, spec=False)
    rng = chk.rng
    n = 30000 if chk.tier == "quick" else 300000
    A, B = [], []
    for i in range(n):
        mode = ("str", "fast", "auto", "stream", "chars", "lines", "str", "lines")[i % 8]
        if mode in ("str", "fast", "auto"):
            allow = ("g", "p", "t", "s", "j", "r", "fb", "m") if mode == "str" else ("t", "s", "j", "fb")
            delims = [b"-", b"--", b"ab", "é".encode()] if mode == "str" else [b"-", b","]
            c = rand_field_case(rng, eng=mode, allow=allow, delims=delims)
            c["b"] = c["b"].replace("\\n", "_")
        elif mode == "stream":
            c = rand_field_case(rng, eng="stream", allow=("j", "fb"), delims=[b"-"], fmt_p=0)
            c["b"] = rng.choice(["1", "2", "1,3", "2:3", "2:", "{1}x{2}", "1,2=F", "3=F", "1:2,4"])
        elif mode == "chars":
            bs, bt = rand_bounds(rng, fmt_p=0.2)
            c = {"kind": "cut", "eng": "str", "bt": "c", "d": b"", "b": bt.replace("\\n", "_"), "j": True, "r": b""}
        else:
            bs, bt = rand_bounds(rng, fmt_p=0)
            c = {"kind": "cut", "eng": "lines", "bt": "l", "d": b"\n", "b": bt, "j": rng.random() < 0.8}
            if rng.random() < 0.2:
                c["m"] = True
        c.pop("z", None)
        c.pop("meta", None)
        d = c.get("d") or b"-"
        if mode in ("chars", "lines"):
            alpha = ["a", "é", "😎", "\0", "\r", "b", "\u010a", "\u0100", "\u4e0a", "\u4e00"]
            recs = ["".join(rng.choice(alpha) for _ in range(rng.randint(0, 4))).encode() for _ in range(rng.randint(1, 4))]
            if mode == "lines" and rng.random() < 0.15:
                k = rng.randrange(len(recs))
                recs[k] = recs[k] + b"\xff"          # a line that is not UTF-8: rejected in both modes
        else:
            alpha = [bytes([x]) for x in d] * 2 + [b"x", b"y", b"\0", b"\r", b"\xff"]
            recs = [b"".join(rng.choice(alpha) for _ in range(rng.randint(0, 7))) for _ in range(rng.randint(1, 4))]
        inp = b"\n".join(recs) + (b"\n" if rng.random() < 0.7 else b"")
        c["in"] = inp
        if mode == "stream":
            c["seg"] = [rng.randint(1, 5) for _ in range(len(inp))]
        cz = dict(c)
        cz["z"] = True
        cz["in"] = inp.translate(TAU)
        if mode == "lines":
            cz["d"] = b"\0"
        A.append(c)
        B.append(cz)
    for c in B[:4]:
        chk.sample(case_line(c))
    la, ia, _ = evaluate(chk, A, "K-engines", spec=False)
    lb, ib, _ = evaluate(chk, B, "K-engines", spec=False, count=False)
    for x, y, a, b in zip(la, lb, ia, ib):
        if a in ("badbounds", "inapplicable"):
            continue
        sa, oa = parse_result(a)
        sb, ob = parse_result(b)
        if sa != sb or oa.translate(TAU) != ob:
            chk.report_oracle("-z on the LF↔NUL-swapped input is not the swapped output of newline mode",
                              {"case": x, "case_b": y, "newline_mode": a, "zero_mode": b})


def cli_part(chk):
    """the real binary, end to end: parse_args is what picks the EOL, the line-mode delimiter and the readers"""
    from cases import rand_cli
    from common import build_tuc, run_cli
    rng = chk.rng
    tuc = build_tuc(release=False)
    n = 3000 if chk.tier == "quick" else 12000
    pairs = []
    while len(pairs) < n:
        argv, _inp, c = rand_cli(rng)
        if c.get("M"):
            argv = ["-f", rng.choice(["1", "2", "1,3", "2:3", "2:", "{1}x{2}", "1,2=F", "3=F"]), "-d", "-", "-M", rng.choice(["1", "64"])] + (["-j"] if rng.random() < 0.3 else [])
            c = {"d": b"-", "bt": "f"}
        argv = [a for a in argv if a != "-z"]
        if "--json" in argv or any("\\n" in a for a in argv) or not argv:      # no argument at all prints the help text
            continue
        bt = c.get("bt", "f")
        if bt in ("c", "l"):
            alpha = ["a", "é", "😎", "\0", "\r", "b", " ", "\u010a", "\u0100", "\u4e0a", "\u4e00"]
            recs = ["".join(rng.choice(alpha) for _ in range(rng.randint(0, 4))).encode() for _ in range(rng.randint(1, 5))]
        elif bt == "b":
            recs = [bytes(rng.choice([0, 10, 13, 97, 255, 45]) for _ in range(rng.randint(0, 5))) for _ in range(rng.randint(1, 3))]
        else:
            d = c.get("d") or b"\t"
            if "-M" not in argv and rng.random() < 0.25:
                # a regex delimiter whose meaning does not involve LF or NUL (literals, classes, `+`, the anchors ^ $ = ends of the RECORD): the
                # expression is compiled by main, and nothing in how it is compiled may make LF special inside a NUL-terminated record
                rx = rng.choice(["-", "[-,]", "-+", "^-", "-$", "^x+|y$", "^-|,"])
                rest, skip = [], False
                for a in argv:
                    if skip:
                        skip = False
                        continue
                    if a == "-d":
                        skip = True
                        continue
                    rest.append(a)
                argv = rest + ["-e", rx]
                d = b"-,"
            alpha = [bytes([x]) for x in d] * 2 + [b"x", b"y", b"\0", b"\r", b"\xff"]
            recs = [b"".join(rng.choice(alpha) for _ in range(rng.randint(0, 7))) for _ in range(rng.randint(1, 4))]
        inp = b"\n".join(recs) + (b"\n" if rng.random() < 0.7 else b"")
        pairs.append((argv, inp))
    ra = run_cli(tuc, [(a, i) for a, i in pairs])
    rb = run_cli(tuc, [(a + ["-z"], i.translate(TAU)) for a, i in pairs])
    for (argv, inp), (sa, oa), (sb, ob) in zip(pairs, ra, rb):
        chk.evaluations += 1
        chk.count("cli:" + sa)
        if sa != "0" or len(oa) >= 2:
            chk.nontrivial_add(("cli", tuple(argv), inp))
        if sa != sb or oa.translate(TAU) != ob:
            chk.report_oracle("CLI: `tuc -z ARGS < swap(I)` is not the swapped output of `tuc ARGS < I`",
                              {"argv": argv, "stdin_hex": inp.hex(), "newline_mode": [sa, oa.hex()], "zero_mode": [sb, ob.hex()]})


def run(chk):
    cli_part(chk)
    # thorough = several independent rounds of the same generators (the PRNG keeps advancing), so that memory stays bounded
    for _round in range(1 if chk.tier == "quick" else 6):
        _run_once(chk)
