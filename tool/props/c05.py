"""C05 — line mode selects whole lines by index, whichever algorithm serves it.
Oracle: implementation vs executed specLines on resolvable requests; and every ascending request
(served one line at a time) against an equivalent request that forces whole-input buffering
(one index rewritten as negative; or appending nothing but asking through -m of the complement)."""
from cases import evaluate, run_corpus, resolve_py
from common import case_line, parse_result
from gen import bound_text, sides, wellformed_bound

LEVEL = "proof"
LYING = lambda a: "-l" in a        # which command lines of cases.rand_cli the lying-size stdin scenario keeps
COUNTS = ["l"]        # modes of cases.count_thresholds
BIG_IO = lambda a: "-l" in a        # which command lines of cases.rand_cli the large-input stream keeps


def _run_once(chk):
    chk.rule = ("inputs of 1-6 lines from {'', a, bc, é, x CR, aé😎, aĊ (U+010A), Ā (U+0100), b上 (U+4E0A): characters whose code point ends in the byte of a terminator} with/without final EOL (never the empty input or a lone EOL), -z, handed over by the reader whole or in "
                "random pieces of 1-4 bytes; plain bounds "
                "lists of 1-3 bounds resolvable on the input (positive, negative, open, repeated, reordered), --no-join, -m; ascending positive "
                "lists are additionally compared with the same list in which one index is spelled negatively (forces buffering); non-trivial = "
                "selects a byte")
    run_corpus(chk)
    rng = chk.rng
    n = 40000 if chk.tier == "quick" else 400000
    cases, pairs = [], []
    for _ in range(n):
        z = rng.random() < 0.25
        eol = b"\0" if z else b"\n"
        nl = rng.randint(1, 6)
        ls = [rng.choice([b"", b"a", b"bc", "é".encode(), b"x\r", "aé😎".encode(), "a\u010a".encode(), "\u0100".encode(), "b\u4e0a".encode()]) for _ in range(nl)]
        if nl == 1 and ls[0] == b"":
            continue
        inp = eol.join(ls) + (eol if (ls[-1] == b"" or rng.random() < 0.6) else b"")
        bs = []
        for _ in range(rng.randint(1, 3)):
            while True:
                l, r = rng.choice(sides(nl)), rng.choice(sides(nl))
                if rng.random() < 0.4 and l is not None:
                    r = l
                if wellformed_bound(l, r) and resolve_py(l, r, nl):
                    break
            bs.append((l, r))
        c = {"kind": "cut", "eng": rng.choice(["lines", "auto"]), "bt": "l", "d": eol, "b": ",".join(bound_text(l, r, None, l == r) for l, r in bs),
             "in": inp, "z": z, "j": rng.random() < 0.75}
        if rng.random() < 0.15:
            c["m"] = True
        if rng.random() < 0.6:
            # the reader hands the input over in pieces of 1-4 bytes: lines and multi-byte characters straddle the reader's buffer fills
            c["seg"] = [rng.randint(1, 4) for _ in range(len(inp))]
        cases.append(c)
        # equivalent request that forces buffering: spell one positive index negatively
        flat = [(i, s) for i, (l, r) in enumerate(bs) for s in (0, 1) if (l, r)[s] is not None and (l, r)[s] > 0]
        if flat and all((l is None or l > 0) and (r is None or r > 0) for l, r in bs) and not c.get("m"):
            i, s = rng.choice(flat)
            l, r = bs[i]
            if l == r:
                nb = (l - nl - 1, l - nl - 1)
            else:
                nb = (l - nl - 1, r) if s == 0 else (l, r - nl - 1)
            if wellformed_bound(*nb):
                bs2 = list(bs)
                bs2[i] = nb
                c2 = dict(c)
                c2["b"] = ",".join(bound_text(l, r, None, l == r) for l, r in bs2)
                pairs.append((c, c2))
    for c in cases[:4]:
        chk.sample(case_line(c))
    evaluate(chk, cases, "K-lines", spec=True)
    la, ia, _ = evaluate(chk, [a for a, _ in pairs], "K-lines", spec=False, count=False)
    lb, ib, _ = evaluate(chk, [b for _, b in pairs], "K-lines", spec=True, count=False)
    for x, y, a, b in zip(la, lb, ia, ib):
        if a != b:
            chk.report_oracle("the one-line-at-a-time algorithm and the buffered algorithm disagree on equivalent requests",
                              {"case": x, "case_b": y, "line_at_a_time": a, "buffered": b})


def past_i32_lines(chk):
    """thorough tier only: the line counter is an i32 (D26) — an input of 2^31 + 2 lines through the real release binary (≈ 35 s)"""
    import subprocess
    from common import build_tuc, ENV
    tuc = build_tuc(release=True)
    for bounds, want in (("2147483645:", 6), ("2147483645:2147483647,2147483647:", 7), ("2147483646,2147483647", 2)):
        cmd = f"head -c 2147483650 /dev/zero | tr '\\0' '\\n' | {tuc} -l {bounds} | wc -c; echo status=${{PIPESTATUS[2]}}"
        p = subprocess.run(["bash", "-c", cmd], stdout=subprocess.PIPE, stderr=subprocess.DEVNULL, text=True, env=ENV, timeout=1800)
        out = p.stdout.split()
        chk.evaluations += 1
        chk.count("lines-past-i32")
        chk.nontrivial_add(("past-i32", bounds))
        got = int(out[0]) if out and out[0].isdigit() else -1
        if got != want or "status=0" not in p.stdout:
            chk.report_oracle("on an input with more than 2^31-1 lines -l does not print exactly the selected lines",
                              {"shell": cmd, "printed_bytes": got, "expected_bytes": want, "raw": p.stdout[-200:]})


def run(chk):
    if chk.tier == "thorough":
        past_i32_lines(chk)
    # thorough = several independent rounds of the same generators (the PRNG keeps advancing), so that memory stays bounded
    for _round in range(1 if chk.tier == "quick" else 6):
        _run_once(chk)
