"""C17 — memory stays within the documented bounds.
What Lean carries: nothing of a chunk is retained across a chunk boundary by the -M machine, and
the scratch state a record leaves is bounded by the record's length (theorems in Props/C17.lean).
What it cannot: the allocator, Vec growth, the real BufReader — so the tie is a MEASURED one: the
harness installs a counting global allocator, feeds each engine (through the same 64 KiB
BufReader/BufWriter main sets up) from a synthetic generator that holds no input in memory, into
a sink, and reports peak live heap for sizes N, 16N, 256N along the dimension the bound must be
independent of.  Violation = the peak grows by more than 64 KiB from N to 256N."""
import subprocess

from common import ENV, HARNESS_BIN, hx

LEVEL = "proof"
SLACK = 64 * 1024


def mem(args):
    p = subprocess.run([HARNESS_BIN, "mem"] + args, stdout=subprocess.PIPE, stderr=subprocess.DEVNULL, env=ENV, timeout=1800)
    out = p.stdout.decode().strip()
    d = dict(x.split("=") for x in out.split() if "=" in x)
    return int(d.get("peak", -1)), d.get("status", out), int(d.get("out", -1))


def rand_ascending_lines_request(rng):
    """a random ASCENDING request of positive line numbers in every spelling the bounds language has for one: N, N:M, N:, :M — each bound starts at or
    after the line the previous one ended on (`1,:3`, `2:4,4:6`, `:1,:2,4` are ascending: an open left side is line 1); which algorithm serves a request is
    decided by code that looks at these spellings, and the documented memory bound must hold for all of them"""
    out, prev = [], 1
    for k in range(rng.randint(1, 4)):
        lo = prev + rng.choice([0, 0, 1, 2])
        hi = lo + rng.choice([0, 0, 1, 3])
        last = (k == 3) or rng.random() < 0.3
        if lo == 1 and rng.random() < 0.5:
            t = f":{hi}"
        elif last and rng.random() < 0.3:
            t = f"{lo}:"
            out.append(t)
            break
        elif hi == lo and rng.random() < 0.6:
            t = str(lo)
        else:
            t = f"{lo}:{hi}"
        out.append(t)
        prev = hi
        if last:
            break
    return ",".join(out)


def run(chk):
    thorough = chk.tier == "thorough"
    chk.rule = ("peak live heap (counting global allocator, in-process, same BufReader/BufWriter capacities as main) for growing sizes; -M: one line "
                "of N bytes (no delimiter selected / no delimiter unselected with fallback / delimiter every 8 bytes with an open range / two "
                "separate fields); -f fast and general path, -c, --json, -l ascending: R records of ~10 bytes and of 38 KB (most of them straddle a 64 KiB refill), requests near the top and near the END of the input; plus 30 (thorough: 120) random option sets per run — -f with subsets of "
                "-g -p -t -s -j -r --json and random bounds / delimiters / record shapes, -M with random bounds / -j / -r / patterns, -l with random "
                "ascending requests — at 64 KiB and 8 MiB (thorough: 64 MiB); a run counts as non-trivial when it processed ≥ 1 MiB; control: the buffered -l (negative index) must be SEEN to grow, which shows the measurement is sensitive")
    line_sizes = [1 << 20, 1 << 24, 1 << 28] if thorough else [1 << 18, 1 << 22, 1 << 26]
    rec_counts = [10 ** 3 * 4, 10 ** 5 * 4, 10 ** 7] if thorough else [1000, 16000, 256000 * 4]
    scen = []
    pat8 = hx(b"aaaaaaaa")
    for name, extra, pat, per, tail in [
        ("-M one line, no delimiter, field selected", ["M=1", "d=" + hx("-"), "b=" + hx("1")], pat8, 8, hx("\n")),
        ("-M one line, no delimiter, field absent (fallback)", ["M=1", "d=" + hx("-"), "b=" + hx("2=F")], pat8, 8, hx("\n")),
        ("-M one line, delimiter every 8 bytes, open range", ["M=1", "d=" + hx("-"), "b=" + hx("2:"), "j=1"], hx(b"aaaaaaa-"), 8, hx("z\n")),
        ("-M one line, huge fields, fields 1 and 3", ["M=1", "d=" + hx("-"), "b=" + hx("1,3")], pat8, 8, hx("-bbbb-cccc\n")),
    ]:
        scen.append((name, [(extra + ["pat=" + pat, f"count={n // per}", "tail=" + tail], n) for n in line_sizes]))
    # a field near the END of one huge line: everything skipped before it must not be kept
    scen.append(("-M one line, delimiter every 8 bytes, one field near the end",
                 [(["M=1", "d=" + hx("-"), "b=" + hx(str(n // 8 - 2)), "pat=" + hx(b"aaaaaaa-"), f"count={n // 8}", "tail=" + hx("z\n")], n) for n in line_sizes]))
    scen.append(("-M one line, delimiter every 8 bytes, first field and a range near the end",
                 [(["M=1", "d=" + hx("-"), "b=" + hx(f"1,{n // 8 - 9}:{n // 8 - 3}"), "j=1", "pat=" + hx(b"aaaaaaa-"), f"count={n // 8}", "tail=" + hx("z\n")], n) for n in line_sizes]))
    rec = hx(b"aa-bbb-cc\n")
    for name, extra in [
        ("-f fast path, many records", ["d=" + hx("-"), "b=" + hx("2,1")]),
        ("-f general path (-g -j), many records", ["d=" + hx("-"), "b=" + hx("-1,2"), "g=1", "j=1"]),
        ("-f --json, many records", ["d=" + hx("-"), "b=" + hx("1:"), "json=1", "j=1", "r=" + hx(",")]),
        ("-f -p multi-byte delimiter, many records", ["d=" + hx("--"), "b=" + hx("1:"), "p=1"]),
        ("-c, many records", ["bt=c", "d=", "b=" + hx("2:3"), "j=1", "r="]),
        ("-l ascending, many lines", ["bt=l", "d=0a", "b=" + hx("2,5:"), "j=1"]),
        ("-l single far line", ["bt=l", "d=0a", "b=" + hx("999"), "j=1"]),
    ]:
        scen.append((name, [(extra + ["pat=" + rec, f"count={r}"], r * 10) for r in rec_counts]))
    # requests that skip (almost) the whole input before the first wanted line: what is skipped must not be kept either
    for name, bf in [("-l single line at the very end", lambda r: str(r - 1)), ("-l short range near the end", lambda r: f"{r - 20}:{r - 10}"),
                     ("-l first line and one at the end", lambda r: f"1,{r - 2}"), ("-l open range starting near the end", lambda r: f"{r - 5}:")]:
        scen.append((name, [(["bt=l", "d=0a", "b=" + hx(bf(r)), "j=1", "pat=" + rec, f"count={r}"], r * 10) for r in rec_counts]))
    # the same with LONG records (a sizeable fraction of the 64 KiB read buffer, so that most records straddle a refill): the bound is the
    # longest record, not their number
    longrec = hx(b"a" * 19000 + b"-" + b"b" * 19000 + b"-cc\n")
    long_counts = [8, 64, 512] if not thorough else [8, 128, 2048]
    for name, extra, bf in [
        ("-f fast path, long records", ["d=" + hx("-"), "j=1"], lambda r: "2,1"),
        ("-f general path (-g -j), long records", ["d=" + hx("-"), "g=1", "j=1"], lambda r: "-1,2"),
        ("-f --json, long records", ["d=" + hx("-"), "json=1", "j=1", "r=" + hx(",")], lambda r: "1:"),
        ("-l ascending, long lines, everything printed", ["bt=l", "d=0a", "j=1"], lambda r: "1:"),
        ("-l long lines, single line at the very end", ["bt=l", "d=0a", "j=1"], lambda r: str(r - 1)),
        ("-l long lines, first line and one near the end", ["bt=l", "d=0a", "j=1"], lambda r: f"1,{r - 2}"),
        ("-M long records, field 2", ["M=1", "d=" + hx("-")], lambda r: "2"),
    ]:
        scen.append((name, [(extra + ["b=" + hx(bf(r)), "pat=" + longrec, f"count={r}"], r * 38004) for r in long_counts]))
    recz = hx(b"aa-bbb-cc\0")
    for name, extra in [
        ("-z -l ascending, many lines", ["bt=l", "d=00", "z=1", "b=" + hx("2,5:"), "j=1"]),
        ("-z -f fast path, many records", ["d=" + hx("-"), "z=1", "b=" + hx("2,1")]),
    ]:
        scen.append((name, [(extra + ["pat=" + recz, f"count={r}"], r * 10) for r in rec_counts]))
    rows = []
    for name, runs in scen:
        peaks = []
        for args, nbytes in runs:
            pk, st, out = mem(args)
            chk.evaluations += 1
            peaks.append(pk)
            if nbytes >= (1 << 20):
                chk.nontrivial_add((name, nbytes))
            if st != "ok" or pk < 0:
                chk.report_oracle("memory scenario did not run to a successful end", {"scenario": name, "args": args, "result": [pk, st, out]})
        rows.append({"scenario": name, "input_bytes": [n for _, n in runs], "peak_live_heap_bytes": peaks})
        if peaks[-1] > peaks[0] + SLACK:
            chk.report_oracle("peak memory grows with the size it must be independent of",
                              {"scenario": name, "args_smallest": runs[0][0], "args_largest": runs[-1][0], "input_bytes": [n for _, n in runs], "peaks": peaks})
    # EVERY ascending -l request over sides {open, 1, 2, 3}, 1-3 bounds, in every spelling (N, N:N, N:M, :M, N:) — which algorithm serves a request is
    # decided by code that reads these spellings (is_sortable / is_sorted / is_forward_only); the memory bound is documented for all of them
    import itertools
    sd = [None, 1, 2, 3]
    one = [(l, r) for l in sd for r in sd if not (l is not None and r is not None and l > r) and not (l is None and r is None)]

    def ascending(bs):
        prev = 1
        for k, (l, r) in enumerate(bs):
            if (1 if l is None else l) < prev:
                return False
            if r is None:
                return k == len(bs) - 1
            prev = r
        return True

    def spellings(l, r):
        if l is not None and l == r:
            return [str(l), f"{l}:{r}"]
        return [("" if l is None else str(l)) + ":" + ("" if r is None else str(r))]
    lists = [x for x in ([[a] for a in one] + [[a, b] for a in one for b in one] + [[a, b, c] for a in one for b in one for c in one]) if ascending(x)]
    for bs in lists:
        for sp in itertools.product(*[spellings(l, r) for l, r in bs]):
            b = ",".join(sp)
            pk = []
            for cnt in (20000, 700000):
                p_, st, _o = mem(["bt=l", "d=0a", "j=1", "b=" + hx(b), "pat=" + hx(b"ab\n"), f"count={cnt}", "tail=" + hx(b"\n")])
                pk.append(p_)
                chk.evaluations += 1
            chk.count("ascending-l-spelling")
            chk.nontrivial_add(("asc-l", b))
            if st != "ok" or pk[1] > pk[0] + SLACK:
                chk.report_oracle("-l with an ascending request of positive line numbers: peak heap grows with the number of lines (or the run fails)",
                                  {"scenario": "-l " + b + " on 20 000 and 700 000 lines 'ab'", "input_bytes": [60000, 2100000], "peaks": pk, "status": st})
    # random scenarios: option sets nobody listed by hand, measured at two sizes along the dimension the bound must not depend on
    from cases import rand_field_case
    from common import case_line
    rng = chk.rng
    small, large = (64 << 10, 8 << 20) if not thorough else (64 << 10, 64 << 20)

    def toks(c):
        return [t for t in case_line(c).split(" ")[1:] if not t.startswith(("in=", "eng=", "seg=", "sw="))]
    rnd = []
    for _ in range(30 if not thorough else 120):
        fam = rng.choice(["records", "records", "M", "M", "lines"])
        if fam == "records":
            c = rand_field_case(rng, eng="auto", allow=("g", "p", "t", "s", "j", "r", "fb", "json"), fmt_p=0.3)
            c["fb"] = c.get("fb") or b"G"
            c.pop("z", None)
            recs = [r for r in c["in"].split(b"\n") if b"\xff" not in r or not c.get("json")][:3] or [b"x"]
            pat = b"\n".join(recs) + b"\n"
            name = "random -f option set, many records: " + " ".join(toks(c))
        elif fam == "M":
            c = {"kind": "cut", "M": True, "d": b"-", "b": rng.choice(["1", "2", "1,3", "2:3", "2:", "{1}x{2}", "1,2=F", "3=F", ":2", "1:"]), "fb": b"G"}
            if rng.random() < 0.4:
                c["j"] = True
            if rng.random() < 0.3:
                c["r"] = b"/"
                c["j"] = True
            pat = rng.choice([b"aaaaaaa-", b"aaaaaaaa", b"a-", b"-", b"aaaa\n", b"a-b-c-d\n", b"\n", b"a-\n"])
            name = "random -M option set: " + " ".join(toks(c)) + " pattern " + repr(pat)
        else:
            c = {"kind": "cut", "bt": "l", "d": b"\n", "b": (rng.choice(["1", "2,5:", "3:4,9", "1:", "2,4,6:", "7", "FAR", "2,FAR:", "FAR:FAR2"]) if rng.random() < 0.4
                                                             else rand_ascending_lines_request(rng)), "j": rng.random() < 0.7}
            pat = rng.choice([b"aa\n", b"\n", b"abcdefghij\n", b"a\nbb\n"])
            name = "random -l ascending request: " + " ".join(toks(c)) + " pattern " + repr(pat)
        runs = []
        for n in (small, large):
            cnt = max(1, n // len(pat))
            cc = dict(c)
            if "FAR" in str(cc.get("b", "")):
                nl = cnt * pat.count(b"\n")          # lines in the input: the far bounds sit a few lines before its end
                cc["b"] = cc["b"].replace("FAR2", str(nl - 3)).replace("FAR", str(nl - 9))
            runs.append((toks(cc) + ["pat=" + hx(pat), f"count={cnt}", "tail=" + hx(b"\n")], n))
        rnd.append((name, runs))
    for name, runs in rnd:
        peaks, sts = [], []
        for args, nbytes in runs:
            pk, st, out = mem(args)
            chk.evaluations += 1
            peaks.append(pk)
            sts.append(st)
        if sts[0] != "ok" or sts[1] != "ok":
            chk.count("random-scenario:did-not-succeed")          # a data-dependent failure (e.g. -s dropping everything is fine, an empty complement is not): not a memory fact
            continue
        chk.count("random-scenario:measured")
        chk.nontrivial_add((name, runs[-1][1]))
        rows.append({"scenario": name, "input_bytes": [n for _, n in runs], "peak_live_heap_bytes": peaks})
        if peaks[-1] > peaks[0] + SLACK:
            chk.report_oracle("peak memory grows with the size it must be independent of",
                              {"scenario": name, "args_smallest": runs[0][0], "args_largest": runs[-1][0], "input_bytes": [n for _, n in runs], "peaks": peaks})
    if thorough:
        # past the last line number an i32 can hold (D26): 2^31-1 empty lines, then 64 MiB of 1 KiB lines, `-l 2:` through the real
        # release binary under /usr/bin/time — what follows the 2^31-1st line must not be held in memory either
        import shutil
        from common import build_tuc
        if shutil.which("/usr/bin/time"):
            tuc = build_tuc(release=True)
            cmd = (f"{{ head -c 2147483647 /dev/zero | tr '\\0' '\\n'; head -c 67108864 /dev/zero | tr '\\0' 'x' | fold -w 1023; }} | "
                   f"/usr/bin/time -f 'maxrss_kb=%M' {tuc} -l 2: 2>&1 >/dev/null | tail -1")
            p = subprocess.run(["bash", "-c", cmd], stdout=subprocess.PIPE, stderr=subprocess.DEVNULL, text=True, env=ENV, timeout=3600)
            chk.evaluations += 1
            m = __import__("re").search(r"maxrss_kb=(\d+)", p.stdout)
            rss = int(m.group(1)) if m else -1
            rows.append({"scenario": "-l 2: on 2^31-1 empty lines followed by 64 MiB of 1 KiB lines (real release binary, max RSS)", "input_bytes": [2147483647 + 67108864],
                         "peak_live_heap_bytes": [rss * 1024]})
            chk.nontrivial_add(("past-i32-lines", rss > 0))
            if rss < 0 or rss > 32 * 1024:
                chk.report_oracle("peak memory grows with the input once the line counter has reached the end of the i32 range",
                                  {"shell": cmd, "max_rss_kb": rss, "limit_kb": 32 * 1024, "raw": p.stdout[-200:]})
    # sensitivity control: the documented growing case must be seen to grow
    pk1, _, _ = mem(["bt=l", "d=0a", "b=" + hx("-1"), "j=1", "pat=" + rec, "count=1000"])
    pk2, _, _ = mem(["bt=l", "d=0a", "b=" + hx("-1"), "j=1", "pat=" + rec, "count=200000"])
    chk.evaluations += 2
    rows.append({"scenario": "control: -l -1 (buffered, documented to hold the whole input)", "input_bytes": [10000, 2000000], "peak_live_heap_bytes": [pk1, pk2]})
    if not pk2 > pk1 + 1000000:
        chk.report_tie("K-mem: the counting allocator does not see the documented growth of the buffered -l (measurement not sensitive)",
                       {"component": "K-mem", "peaks": [pk1, pk2]})
    chk.extra["measurements"] = rows
    for r in rows[:3]:
        chk.sample(r)
    chk.notes.append("partial by nature: the theorems bound what the MODEL retains (nothing of a chunk across a chunk boundary for -M; scratch state bounded by the "
                     "record length for the record engines); the real allocator, Vec growth policy and BufReader are measured, not proved: peak live heap for "
                     "N, 16N, 256N must stay within 64 KiB of each other")
