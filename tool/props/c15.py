"""C15 — --complement prints exactly what each bound leaves out.
Oracle: implementation with `-m B` vs implementation with `rewrite(B, n)` (each bound replaced, in
place, by the parts before it followed by the parts after it) on inputs whose records all have n
parts, in -f, --json and -l, with -j / -r; and failure when nothing is left out."""
from cases import evaluate, run_corpus, normalise_field_case, resolve_py
from common import case_line, parse_result
from gen import bound_text, sides, wellformed_bound

LEVEL = "proof"
COUNTS = ["f"]        # modes of cases.count_thresholds (with the multi-count / oversized-record histories of cases.history_cases)
BIG_IO = lambda a: "-m" in a        # which command lines of cases.rand_cli the large-input stream keeps


def _run_once(chk):
    chk.rule = ("n in 1..5 parts, 1-3 bounds resolvable on n (single, range, open, negative); `-m B` against the rewritten list without -m (also as format text with literal text around the bounds); "
                "modes -f (general path; multi-byte delimiters too), --json, -l, with -j / -r R; all-covering lists must fail; non-trivial "
                "= selects a byte or fails")
    run_corpus(chk)
    rng = chk.rng
    cnt = 30000 if chk.tier == "quick" else 300000
    A, B = [], []
    expect_fail = []
    for _ in range(cnt):
        n = rng.randint(1, 5)
        nb = rng.randint(1, 3)
        bs, rew, rew_per = [], [], []
        for _ in range(nb):
            while True:
                l = rng.choice(sides(n))
                r = rng.choice(sides(n))
                if rng.random() < 0.4 and l is not None:
                    r = l
                if wellformed_bound(l, r) and resolve_py(l, r, n):
                    break
            lo, hi = resolve_py(l, r, n)
            bs.append(bound_text(l, r, None, l == r))
            mine = []
            if lo > 1:
                mine.append(f"1:{lo - 1}" if lo - 1 > 1 else "1")
            if hi < n:
                mine.append(f"{hi + 1}:{n}" if hi + 1 < n else f"{n}")
            rew.extend(mine)
            rew_per.append(mine)
        mode = rng.choice(["f", "f", "json", "l"])
        z = rng.random() < 0.15
        eol = b"\0" if z else b"\n"
        parts = [rng.choice([b"x", b"y", b"xy", b""]) for _ in range(n)]
        c = {"kind": "cut", "z": z}
        if mode in ("f", "json"):
            d = rng.choice([b"-", b"--", b"ab"])
            rec = d.join(parts)
            if rec == b"":
                continue
            c.update({"eng": "str", "d": d, "in": (rec + eol) * rng.randint(1, 2)})
            if mode == "json":
                c["json"] = True
            else:
                if rng.random() < 0.4:
                    c["j"] = True
                if rng.random() < 0.3:
                    c["r"] = rng.choice([b"/", b"::"])
        else:
            ls = [rng.choice([b"a", b"bc", b""]) for _ in range(n)]
            if n == 1 and ls[0] == b"":
                continue
            c.update({"eng": "lines", "bt": "l", "d": eol, "in": eol.join(ls) + eol, "j": rng.random() < 0.8})
        ca = dict(c)
        ca["b"] = ",".join(bs)
        tb = ",".join(rew)
        if mode == "f" and rng.random() < 0.3:
            # the same request as format text (literal text before, between and after the bounds): `-m '[{2}]'` is `'[{1,3:}]'`
            pre = rng.choice(["", "[", "<"])
            seps = [rng.choice(["", "|", "]", " "]) for _ in bs]
            ca["b"] = pre + "".join("{" + b + "}" + sp for b, sp in zip(bs, seps))
            tb = pre + "".join(("{" + ",".join(mine) + "}" if mine else "") + sp for mine, sp in zip(rew_per, seps))
        ca["m"] = True
        ca = normalise_field_case(ca)
        if not rew:
            expect_fail.append(ca)
            continue
        cb = dict(c)
        cb["b"] = tb
        A.append(ca)
        B.append(normalise_field_case(cb))
    for c in A[:4]:
        chk.sample(case_line(c))
    la, ia, _ = evaluate(chk, A, "K-engines", spec=True, spec_status_only=True)
    lb, ib, _ = evaluate(chk, B, "K-engines", spec=True, spec_status_only=True, count=False)
    for x, y, a, b in zip(la, lb, ia, ib):
        if a != b:
            chk.report_oracle("-m B differs from the rewritten list", {"case": x, "case_b": y, "with_m": a, "rewritten": b})
    lf, fi, _ = evaluate(chk, expect_fail, "K-engines", spec=True, spec_status_only=True)
    for x, a in zip(lf, fi):
        st, out = parse_result(a)
        if st != "fail":
            chk.report_oracle("the bounds leave nothing out, yet the run does not fail", {"case": x, "implementation": a})


def run(chk):
    # thorough = several independent rounds of the same generators (the PRNG keeps advancing), so that memory stays bounded
    for _round in range(1 if chk.tier == "quick" else 6):
        _run_once(chk)
