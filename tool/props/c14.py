"""C14 — failures are reported, never swallowed, and never corrupt earlier output.
In-process (main's dispatch with Read/Write doubles): writer failing at EVERY byte position k of
the fault-free output, reader failing after EVERY k input bytes; oracle: no panic, status non-zero
whenever anything is cut off, delivered bytes are a prefix of the fault-free output; tie:
implementation = model (`deliver`, `dispatchReadFault`).  CLI (real binary, real kernel):
RLIMIT_FSIZE=k write faults (byte exact), /dev/full, closed pipe, stdin from a directory."""
import os
import resource
import signal
import subprocess
import tempfile

from cases import evaluate, rand_field_case, run_corpus, normalise_field_case, split_records
from common import BUILD, ENV, build_tuc, case_line, parse_result
from gen import rand_bounds, rand_input

LEVEL = "proof"
LYING = lambda a: True        # which command lines of cases.rand_cli the lying-size stdin scenario keeps


def base_cases(rng, n):
    out = []
    for i in range(n):
        mode = ("auto", "autofast", "M", "b", "l", "lbuf", "c", "json")[i % 8]
        if mode in ("auto", "json"):
            c = rand_field_case(rng, eng="auto", allow=("g", "p", "t", "s", "j", "r", "z", "fb") + (("json",) if mode == "json" else ()))
            if mode == "json":
                c["json"] = True
                c.pop("r", None)
                c["b"] = rand_bounds(rng, fmt_p=0)[1]
                normalise_field_case(c)
        elif mode == "autofast":
            c = rand_field_case(rng, eng="auto", allow=("t", "s", "j", "z", "fb"), delims=[b"-"])
        elif mode == "M":
            c = rand_field_case(rng, eng="auto", allow=("j", "z", "fb"), delims=[b"-"])
            c["b"] = rng.choice(["1", "2", "1,3", "2:3", "2:", "{1}x{2}", "1,2=F", "3=F"])
            c["M"] = True
            c["seg"] = [rng.randint(1, 5) for _ in range(len(c["in"]))]
        elif mode == "b":
            c = {"kind": "cut", "eng": "auto", "bt": "b", "d": b"", "b": rand_bounds(rng)[1],
                 "in": bytes(rng.choice([0, 10, 97, 255]) for _ in range(rng.randint(0, 8)))}
        elif mode in ("l", "lbuf"):
            z = rng.random() < 0.2
            eol = b"\0" if z else b"\n"
            ls = [rng.choice([b"a", b"", b"bc"]) for _ in range(rng.randint(1, 5))]
            b = rng.choice(["1", "2,3", "1:2", "2:", "1,4=F"]) if mode == "l" else rng.choice(["-1", "2,1", "-2:"])
            c = {"kind": "cut", "eng": "auto", "bt": "l", "d": eol, "b": b, "in": eol.join(ls) + eol, "z": z, "j": True}
            if mode == "lbuf" and rng.random() < 0.3:
                c["m"] = True
        else:
            z = rng.random() < 0.2
            eol = b"\0" if z else b"\n"
            recs = ["".join(rng.choice(["a", "é", "😎"]) for _ in range(rng.randint(0, 4))) for _ in range(rng.randint(1, 3))]
            c = {"kind": "cut", "eng": "auto", "bt": "c", "d": b"", "b": rand_bounds(rng)[1], "in": eol.join(r.encode() for r in recs) + eol,
                 "z": z, "j": True, "r": b""}
        c.pop("meta", None)
        out.append(c)
    return out


def cli_part(chk, tuc):
    """real binary: byte-exact write faults with RLIMIT_FSIZE, /dev/full, closed pipe, EISDIR"""
    modes = {
        "fast": ["-d", "-", "-f", "1,3"], "general": ["-d", "-", "-g", "-f", "2,1", "-j"], "M": ["-d", "-", "-f", "1,3", "-M", "1"],
        "b": ["-b", "1:"], "l": ["-l", "1:"], "lbuf": ["-l", "-2:"], "c": ["-c", "1:3"], "json": ["-d", "-", "--json", "-f", "1:"],
    }
    big = b"".join(b"aaaa-bbbb-cccc--dddd\n" for _ in range(7000))          # ≈ 147 KB > 2 × 64 KiB
    small = b"a-b-c\nd-e-f\n"
    os.makedirs(BUILD, exist_ok=True)
    tmp = tempfile.mkdtemp(prefix="c14", dir=BUILD)
    env = dict(ENV)

    def run(args, data, limit=None, stdout_path=None, stdin_dir=False, close_pipe=False):
        def pre():
            if limit is not None:
                signal.signal(signal.SIGXFSZ, signal.SIG_IGN)
                resource.setrlimit(resource.RLIMIT_FSIZE, (limit, limit))
        if stdin_dir:
            p = subprocess.run([tuc] + args, stdin=os.open(tmp, os.O_RDONLY), stdout=subprocess.PIPE, stderr=subprocess.DEVNULL, env=env, timeout=30)
            return p.returncode, p.stdout
        if close_pipe:
            p = subprocess.Popen([tuc] + args, stdin=subprocess.PIPE, stdout=subprocess.PIPE, stderr=subprocess.DEVNULL, env=env)
            p.stdout.close()
            try:
                p.stdin.write(data)
                p.stdin.close()
            except BrokenPipeError:
                pass
            return p.wait(timeout=30), b""
        path = stdout_path or os.path.join(tmp, "out")
        with open(path, "wb") as f:
            p = subprocess.run([tuc] + args, input=data, stdout=f, stderr=subprocess.DEVNULL, env=env, preexec_fn=pre, timeout=30)
        out = open(path, "rb").read() if not path.startswith("/dev/") else b""
        return p.returncode, out

    for name, args in modes.items():
        # inputs without a final EOL: the tail after the last newline sits in stdout's LineWriter until the last flush
        # `huge`: single fields of 100 KB — written past main's BufWriter in one piece, so a fault there is seen by the engine, not by the final flush
        huge = (b"v" * 100000 + b"-k-" + b"w" * 100000 + b"\n") * 3
        for data in (small, big, small[:-1], big + b"LAST-LINE-WITHOUT-NEWLINE", huge):
            rc, full = run(args, data)
            chk.evaluations += 1
            if rc != 0:
                chk.report_oracle("CLI: fault-free run failed", {"argv": args, "exit": rc})
                continue
            tail = len(full) - (full.rfind(b"\n") + 1)          # bytes after the last newline of the output
            ks = sorted(set(k for k in (0, 1, len(full) // 2, len(full) - 1, len(full) - tail, len(full) - tail // 2 - 1, 65535, 65536, 65537, 131072)
                            if 0 <= k < len(full)))
            for k in ks:
                rc, got = run(args, data, limit=k)
                chk.evaluations += 1
                chk.nontrivial_add(("fsize", name, len(data), k))
                chk.count("cli:write-fault")
                if rc not in (1,) or not full.startswith(got):
                    chk.report_oracle("CLI: write fault (EFBIG after k bytes) swallowed or earlier output corrupted",
                                      {"argv": args, "stdin_bytes": len(data), "fail_after_k_bytes": k, "exit": rc, "delivered_bytes": len(got),
                                       "delivered_is_prefix": full.startswith(got)})
            rc, _ = run(args, data, stdout_path="/dev/full")
            chk.evaluations += 1
            chk.count("cli:/dev/full")
            if rc != 1:
                chk.report_oracle("CLI: output to /dev/full (ENOSPC) did not end with status 1", {"argv": args, "stdin_bytes": len(data), "exit": rc})
            rc, _ = run(args, data, close_pipe=True)
            chk.evaluations += 1
            chk.count("cli:closed-pipe")
            if rc not in (1,):
                chk.report_oracle("CLI: closed stdout pipe (EPIPE) did not end with status 1", {"argv": args, "stdin_bytes": len(data), "exit": rc})
        rc, out = run(args, b"", stdin_dir=True)
        chk.evaluations += 1
        chk.count("cli:EISDIR")
        chk.nontrivial_add(("eisdir", name))
        if rc != 1 or out != b"":
            chk.report_oracle("CLI: stdin from a directory (EISDIR) did not end with status 1 and empty stdout", {"argv": args, "exit": rc, "stdout_hex": out.hex()})
    import shutil
    shutil.rmtree(tmp, ignore_errors=True)


# errno values the doubles report their faults with (never EINTR: write_all / read_to_end retry it by contract)
ERRNOS_W = [32, 28, 5, 27, 9, 11]
ERRNOS_R = [5, 21, 9, 11, 104]


def run(chk):
    chk.rule = ("in-process: main's dispatch for every mode (fast, general, -M with random segmentation, -b, -l both algorithms, -c, --json) "
                "on random small inputs; for each case the writer fails at every byte position k ≤ |fault-free output| and the reader fails "
                "after every k ≤ |input| bytes, the fault reported as a custom error or as one of the OS errors EPIPE ENOSPC EIO EFBIG EBADF "
                "EAGAIN / EIO EISDIR EBADF EAGAIN ECONNRESET; CLI: RLIMIT_FSIZE=k at 0,1,mid,end-1,64Ki±1,128Ki for 8 modes × small/147 KB inputs, "
                "/dev/full, closed pipe, stdin from a directory; non-trivial = a fault position strictly inside the output/input")
    run_corpus(chk)
    rng = chk.rng
    n = 1200 if chk.tier == "quick" else 12000
    bases = base_cases(rng, n)
    lines, bimpl, _ = evaluate(chk, bases, "K-io(base)", spec=False)
    W, R, wmeta, rmeta = [], [], [], []
    for c, res in zip(bases, bimpl):
        st, full = parse_result(res)
        if st not in ("ok", "fail"):
            continue
        for k in range(0, len(full) + 1):
            d = dict(c)
            d["wf"] = k
            if rng.random() < 0.6:
                d["wfe"] = rng.choice(ERRNOS_W)          # the fault as a real OS error: EPIPE, ENOSPC, EIO, EFBIG, EBADF, EAGAIN
            W.append(d)
            wmeta.append((st, full, k))
        for k in range(0, len(c["in"]) + 1):
            d = dict(c)
            d["rf"] = k
            if rng.random() < 0.6:
                d["rfe"] = rng.choice(ERRNOS_R)          # EIO, EISDIR, EBADF, EAGAIN, ECONNRESET
            R.append(d)
            rmeta.append((st, full, k))
    for c in W[:2] + R[:2]:
        chk.sample(case_line(c))
    lw, wi, _ = evaluate(chk, W, "K-io(write)", spec=False)
    for l, i, (st, full, k) in zip(lw, wi, wmeta):
        s2, out = parse_result(i)
        bad = s2 not in ("ok", "fail") or not full.startswith(out) or (k < len(full) and s2 == "ok") or (k >= len(full) and (s2, out) != (st, full))
        if bad:
            chk.report_oracle("write fault at byte k: swallowed, or delivered bytes are not a prefix of the fault-free output",
                              {"case": l, "implementation": i, "fault_free": f"{st} {full.hex()}"})
    lr, ri, _ = evaluate(chk, R, "K-io(read)", spec=False)
    for l, i, (st, full, k) in zip(lr, ri, rmeta):
        s2, out = parse_result(i)
        bad = s2 not in ("ok", "fail") or not full.startswith(out) or (s2 == "ok" and out != full)
        if bad:
            chk.report_oracle("read fault after k bytes: swallowed, or delivered bytes are not a prefix of the fault-free output",
                              {"case": l, "implementation": i, "fault_free": f"{st} {full.hex()}"})
    # a failing record: earlier records are delivered complete
    F = []
    for c, res in zip(bases, bimpl):
        st, full = parse_result(res)
        if st == "fail" and c.get("bt") in (None, "c") and not c.get("M"):
            eol = b"\0" if c.get("z") else b"\n"
            recs = split_records(c["in"], eol)
            for j in range(len(recs)):
                d = dict(c)
                d["in"] = b"".join(r + eol for r in recs[:j])
                F.append((d, full, j))
    lf, fi, _ = evaluate(chk, [d for d, _, _ in F], "K-io(prefix)", spec=False, count=False)
    for l, i, (d, full, j) in zip(lf, fi, F):
        s2, out = parse_result(i)
        if s2 == "ok" and not full.startswith(out):
            chk.report_oracle("a run that fails on some record does not deliver the complete output of the earlier records",
                              {"case": l, "earlier_records_alone": i, "failing_run_output": full.hex()})
    tuc = build_tuc(release=False)
    cli_part(chk, tuc)
