"""Case generators (DESIGN.md §2.4): structured, mostly-valid inputs built from the repo's own
types; every random choice comes from the one PRNG handed in."""
import itertools

OPEN = None


def side_str(v):
    return "" if v is None else str(v)


I32_EDGES = [2147483647, -2147483647, -2147483648, 2147483646, 46341, 65536, -65536, 100000]          # the last four: products and sums of two of them leave the i32 range


def sides(k):
    return [v for v in range(-k, k + 1) if v != 0] + [OPEN]


def pick_side(rng, k, edge_p=0.02):
    """a side in ±k / open, now and then one end of the i32 range (abs / negation / multiplication overflow there)"""
    return rng.choice(I32_EDGES) if rng.random() < edge_p else rng.choice(sides(k))


def wellformed_bound(l, r):
    """what UserBounds::from_str accepts for `l:r`"""
    if l is None and r is None:
        return False
    if l is not None and r is not None and (l > 0) == (r > 0) and r < l:
        return False
    return True


def bound_text(l, r, fb=None, single=False):
    if single:
        t = side_str(l)
    else:
        t = side_str(l) + ":" + side_str(r)
    if fb is not None:
        t += "=" + fb
    return t


def all_bounds(k):
    """every well-formed bound with sides in -k..k / open: (l, r, text)"""
    out = []
    for v in range(-k, k + 1):
        if v != 0:
            out.append((v, v, str(v)))
    for l in sides(k):
        for r in sides(k):
            if wellformed_bound(l, r):
                out.append((l, r, bound_text(l, r)))
    return out


def strings_upto(alphabet, n):
    for k in range(0, n + 1):
        for t in itertools.product(alphabet, repeat=k):
            yield "".join(t)


def bytes_upto(alphabet, n, minlen=0):
    for k in range(minlen, n + 1):
        for t in itertools.product(alphabet, repeat=k):
            yield b"".join(t)


def segmentations(n):
    """all compositions of n (lists of positive ints summing to n)"""
    if n == 0:
        yield []
        return
    for mask in range(1 << (n - 1)):
        segs = []
        cur = 1
        for i in range(n - 1):
            if mask >> i & 1:
                segs.append(cur)
                cur = 1
            else:
                cur += 1
        segs.append(cur)
        yield segs


# ------------------------------------------------------------------------------------------------
# field-mode cases

DELIMS = [b"-", b"--", b"ab", b"aba", "é".encode(), b"\t", b","]
FILLERS = ["<", ">", "x", "{{", "}}", "\\n", " ", "é", "-", "z", "-z", "-mjz", "Ż", "Ž", "ĺ", "Ĭ", "Ľ", "ĭ", "ı", "Ŝ"]   # the last ones look like flags when the text starts with them
# (Ż Ž ĺ Ĭ Ľ ĭ ı Ŝ: U+017B U+017D U+013A U+012C U+013D U+012D U+0131 U+015C — their code points end in the bytes of { } : , = - 1 \\: a `char as u8` comparison takes them for syntax)
FALLBACKS = ["", "F", "a-b", "é", " ", "x ", " y", "n=a", "==", "Ľ", "C:\\tmp\\new", "a\\nb"]          # the last two: backslash-t / backslash-n are escapes in format TEXT only


def alphabet_for(d, z, rich=True):
    eol = b"\0" if z else b"\n"
    other = b"\n" if z else b"\0"
    a = [bytes([x]) for x in d] * 3 + [b"x", b"y"]
    if rich:
        a += [other, b"\r", b"\xff"]
        if len(d) == 1 and d[0] < 0x80:
            # characters whose code point has the delimiter as its low byte (U+01dd, U+04dd): a `char as u8` comparison confuses them
            a += [chr(0x100 + d[0]).encode(), chr(0x400 + d[0]).encode()]
        # … and the same for the two record terminators: U+010A / U+4E0A end in 0x0A, U+0100 / U+4E00 in 0x00
        a += ["\u010a".encode(), "\u0100".encode(), "\u4e0a".encode(), "\u4e00".encode()]
    return a, eol


BIG_SIZES_SMALL = [1023, 1024, 1025, 4095, 4096, 4097, 6000, 8191, 8192, 8193, 20000, 65535, 65536, 65537, 70000]
MEDIUM = [15, 16, 17, 31, 32, 33, 42, 43, 63, 64, 65, 100, 127, 128, 129, 200, 255, 256, 257, 300, 511, 512, 513]


def medium_run(rng, atoms):
    """a run of 15-513 atoms (one atom repeated, or a random mix): sizes between the tiny records and the large-input stream, where
    fixed-size stack buffers, small-string optimisations and `len * k <= N` shortcuts live"""
    n = rng.choice(MEDIUM)
    if rng.random() < 0.6:
        return [rng.choice(atoms)] * n
    return [rng.choice(atoms) for _ in range(n)]


def rand_record(rng, alpha, maxlen=8):
    n = rng.choice([0, 1, 2, 3, 3, 4, 4, 5, 6, 7, maxlen])
    return b"".join(rng.choice(alpha) for _ in range(n))


def rand_field_record(rng, d, maxfields=5):
    """a record built from fields (so that most bounds resolve)"""
    nf = rng.randint(1, maxfields)
    fields = [rng.choice([b"", b"x", b"y", b"xy", b"yx", b"\xff", b"x\r"]) for _ in range(nf)]
    seps = [d * rng.choice([1, 1, 1, 2, 3]) for _ in range(nf - 1)]
    out = b""
    for i, f in enumerate(fields):
        out += f
        if i < nf - 1:
            out += seps[i]
    return out


def rand_bound(rng, k=4, fallback_p=0.25):
    while True:
        l = rng.choice(sides(k))
        r = rng.choice(sides(k))
        if rng.random() < 0.03:
            # the ends of the i32 range (abs / negation / multiplication overflow there)
            if rng.random() < 0.5:
                l = rng.choice(I32_EDGES)
            else:
                r = rng.choice(I32_EDGES)
        single = rng.random() < 0.4
        if single:
            if l is None:
                continue
            r = l
        if wellformed_bound(l, r):
            fb = rng.choice(FALLBACKS) if rng.random() < fallback_p else None
            return (l, r, fb, single)


def bounds_text(bs, fmt=None, rng=None):
    """bs: list of (l, r, fb, single). fmt None: comma list; else formatted with fillers."""
    texts = [bound_text(l, r, fb, single) for (l, r, fb, single) in bs]
    if fmt is None:
        return ",".join(texts)
    out = ""
    if rng.random() < 0.5:
        out += rng.choice(FILLERS)
    i = 0
    while i < len(texts):
        # sometimes two bounds inside one pair of braces
        if i + 1 < len(texts) and rng.random() < 0.3:
            out += "{" + texts[i] + "," + texts[i + 1] + "}"
            i += 2
        else:
            out += "{" + texts[i] + "}"
            i += 1
        if rng.random() < 0.6:
            out += rng.choice(FILLERS)
    return out


def rand_bounds(rng, maxn=3, k=4, fallback_p=0.25, fmt_p=0.3):
    n = rng.randint(1, maxn)
    bs = [rand_bound(rng, k, fallback_p) for _ in range(n)]
    fmt = True if rng.random() < fmt_p else None
    # fallbacks containing ',' or '}' would change the parse; FALLBACKS avoids them
    return bs, bounds_text(bs, fmt, rng)


def rand_field_opts(rng, d, allow=("g", "p", "t", "s", "j", "r", "z", "fb", "m", "json")):
    o = {}
    for k in ("g", "p", "s", "j", "z", "m", "json"):
        if k in allow and rng.random() < 0.3:
            o[k] = True
    if "t" in allow and rng.random() < 0.3:
        o["t"] = rng.choice(["l", "r", "b"])
    if "r" in allow and rng.random() < 0.3:
        o["r"] = rng.choice([b"/", b"::", d, b""])
    if "fb" in allow and rng.random() < 0.3:
        o["fb"] = rng.choice([b"", b"G", b"g-g"])
    return o


def rand_input(rng, d, z, nrec=None, rich=True):
    alpha, eol = alphabet_for(d, z, rich)
    if rich and rng.random() < 0.25:
        # one arbitrary byte value per input (ASCII blanks, control bytes, UTF-8 lead/continuation bytes …): code keyed to one byte value
        alpha = alpha + [bytes([rng.randrange(256)])] * 2
    nrec = nrec if nrec is not None else rng.choice([1, 1, 2, 3])
    recs = []
    for _ in range(nrec):
        if rng.random() < 0.5:
            recs.append(rand_field_record(rng, d))
        else:
            recs.append(rand_record(rng, alpha))
    if recs and rng.random() < 0.04:
        k = rng.randrange(len(recs))
        cut = rng.randint(0, len(recs[k]))
        recs[k] = recs[k][:cut] + b"".join(medium_run(rng, [a for a in alpha if a != eol] or [b"x"])) + recs[k][cut:]
    data = eol.join(recs)
    if rng.random() < 0.7:
        data += eol
    if rng.random() < 0.05:
        # a magic number at the very start of the input (byte order marks, #!, gzip …) is data like any other; when the alphabet must stay
        # valid UTF-8 (not rich) only U+FEFF is used
        data = (rng.choice([b"\xef\xbb\xbf", b"\xef\xbb\xbf", b"\xff\xfe", b"\xfe\xff", b"#!", b"\x1f\x8b"]) if rich else b"\xef\xbb\xbf") + data
    return data
