#!/usr/bin/env python3
"""tool/transcripts.py — are the statement-by-statement transcriptions still transcriptions of the CURRENT Rust text?

The literal models (lean/Tuc/Model/*Loop*.lean, *Lit.lean, Argv.lean, Main.lean) were written by reading particular Rust
functions; their comments cite Rust line numbers.  What ties a property to /repo on every run is the differential
correspondence (implementation vs the normal-form model that the literal model is proved equal to) — this tool adds the
missing bookkeeping: for every transcribed Rust function it records a digest of the function's text (comments and white
space removed) at transcription time (`transcription-baseline.json`, committed) and reports on every run which of them
still carry that text.  A stale entry is NOT a violation (the property may well hold, and the correspondence still decides
that); it says that the refinement theorem about that function is now a theorem about an older version of the code, and
it is written into the evidence (`coverage.literal_transcriptions`) and printed as a NOTE line.

  python3 tool/transcripts.py            print the status table
  python3 tool/transcripts.py --rebase   record the digests of the current tree (after re-reading the changed function
                                         against its Lean transcription!)
"""
import hashlib
import json
import os
import re
import sys

VERIF = os.path.dirname(os.path.dirname(os.path.abspath(__file__)))
REPO = os.environ.get("VERIF_REPO", "/repo")
BASELINE = os.path.join(VERIF, "transcription-baseline.json")

# Lean module -> [(rust file, item header regex, occurrence index)]
# the header regex is searched at the start of a (stripped) source line; the item extends to the matching closing brace
TABLE = {
    "Tuc.Model.TextLoops": [("src/cut_str.rs", r"fn fill_with_fields_locations\b", 0), ("src/cut_str.rs", r"fn fill_with_fields_locations_greedy\b", 0),
                            ("src/cut_str.rs", r"fn compress_delimiter\b", 0), ("src/cut_str.rs", r"fn trim\b", 0)],
    "Tuc.Model.CutStrLit": [("src/cut_str.rs", r"fn maybe_replace_delimiter\b", 0), ("src/cut_str.rs", r"macro_rules! write_maybe_as_json\b", 0),
                            ("src/cut_str.rs", r"pub fn cut_str\b", 0)],
    "Tuc.Model.FastLoop": [("src/fast_lane.rs", r"fn trim\b", 0), ("src/fast_lane.rs", r"fn cut_str_fast_lane\b", 0),
                           ("src/fast_lane.rs", r"fn output_parts\b", 0), ("src/fast_lane.rs", r"pub fn read_and_cut_text_as_bytes\b", 0)],
    "Tuc.Model.LinesLoop": [("src/read_utils.rs", r"pub fn read_line_with_eol\b", 0), ("src/cut_lines.rs", r"fn cut_lines_forward_only\b", 0),
                            ("src/cut_lines.rs", r"fn cut_lines\b", 0), ("src/cut_lines.rs", r"pub fn read_and_cut_lines\b", 0)],
    "Tuc.Model.StreamLoop": [("src/stream.rs", r"fn cut_bytes_stream\b", 0), ("src/stream.rs", r"fn print_filler_or_fallbacks\b", 0)],
    "Tuc.Model.BoundsLit": [("src/bounds/side.rs", r"fn from_str\b", 0), ("src/bounds/side.rs", r"fn partial_cmp\b", 0),
                            ("src/bounds/userbounds.rs", r"fn from_str\b", 0), ("src/bounds/userbounds.rs", r"fn from\b", 0),
                            ("src/bounds/userbounds.rs", r"fn partial_cmp\b", 0), ("src/bounds/userbounds.rs", r"fn matches\b", 1),
                            ("src/bounds/userbounds.rs", r"fn try_into_range\b", 1), ("src/bounds/userbounds.rs", r"fn unpack\b", 1),
                            ("src/bounds/userbounds.rs", r"fn complement\b", 1), ("src/bounds/userbounds.rs", r"fn complement_std_range\b", 0)],
    "Tuc.Model.Argv": [("src/bin/tuc.rs", r"fn parse_args\b", 0)],
    "Tuc.Model.Main": [("src/bin/tuc.rs", r"fn main\b", 0)],
    "Tuc.Model.ReadLoops": [("src/cut_str.rs", r"pub fn read_and_cut_str\b", 0), ("src/read_utils.rs", r"pub fn read_bytes_to_end\b", 0),
                            ("src/cut_bytes.rs", r"fn cut_bytes\b", 0), ("src/cut_bytes.rs", r"pub fn read_and_cut_bytes\b", 0)],
    "Tuc.Model.BoundsListLit": [("src/bounds/userboundslist.rs", r"fn from\b", 0), ("src/bounds/userboundslist.rs", r"fn from_str\b", 0),
                                ("src/bounds/userboundslist.rs", r"pub fn is_sortable\b", 0), ("src/bounds/userboundslist.rs", r"fn is_sorted\b", 0),
                                ("src/bounds/userboundslist.rs", r"fn has_negative_indices\b", 0), ("src/bounds/userboundslist.rs", r"pub fn is_forward_only\b", 0),
                                ("src/bounds/userboundslist.rs", r"pub fn unpack\b", 0), ("src/bounds/userboundslist.rs", r"pub fn complement\b", 0),
                                ("src/bounds/userboundslist.rs", r"pub fn parse_bounds_list\b", 0)],
    "Tuc.Model.RegexLit": [("src/cut_str.rs", r"fn fill_with_fields_locations_using_regex\b", 0), ("src/cut_str.rs", r"fn compress_delimiter_with_regex\b", 0),
                           ("src/cut_str.rs", r"fn trim_regex\b", 0)],
    "Tuc.Model.OptLit": [("src/stream.rs", r"fn try_from\b", 0), ("src/stream.rs", r"fn try_from\b", 1), ("src/stream.rs", r"fn get_last_bound\b", 0),
                         ("src/stream.rs", r"pub fn read_and_cut_bytes_stream\b", 0), ("src/stream.rs", r"fn print_field\b", 0), ("src/stream.rs", r"fn print_bof\b", 0),
                         ("src/fast_lane.rs", r"fn try_from\b", 0), ("src/options.rs", r"fn from_str\b", 0), ("src/bin/tuc.rs", r"fn main\b", 0)],
}


def strip_rust_comments(src):
    out, i, n = [], 0, len(src)
    while i < n:
        c = src[i]
        if src.startswith("//", i):
            j = src.find("\n", i)
            i = n if j < 0 else j
        elif src.startswith("/*", i):
            j = src.find("*/", i + 2)
            i = n if j < 0 else j + 2
        elif c == '"':
            j = i + 1
            while j < n and src[j] != '"':
                j += 2 if src[j] == "\\" else 1
            out.append(src[i:j + 1])
            i = j + 1
        elif c == "'" and i + 2 < n and (src[i + 2] == "'" or (src[i + 1] == "\\" and src.find("'", i + 2) - i <= 8 and src.find("'", i + 2) > 0)):
            j = src.find("'", i + 2)
            out.append(src[i:j + 1])
            i = j + 1
        else:
            out.append(c)
            i += 1
    return "".join(out)


def item_text(path, header, occurrence):
    """text of the `occurrence`-th item whose first line matches `header`, up to its matching brace; None if absent"""
    try:
        src = strip_rust_comments(open(path, encoding="utf-8", errors="replace").read())
    except OSError:
        return None
    hits = [m.start() for m in re.finditer(r"(?m)^[ \t]*(?:#\[[^\]]*\][ \t]*\n[ \t]*)*" + header, src)]
    # (test modules repeat helper names such as `fn trim`: occurrences are counted from the top of the file, where the
    #  production code lives)
    if len(hits) <= occurrence:
        return None
    i = src.find("{", hits[occurrence])
    if i < 0:
        return None
    depth, j, n = 0, i, len(src)
    while j < n:
        c = src[j]
        if c == '"':
            j += 1
            while j < n and src[j] != '"':
                j += 2 if src[j] == "\\" else 1
        elif c == "{":
            depth += 1
        elif c == "}":
            depth -= 1
            if depth == 0:
                break
        j += 1
    return re.sub(r"\s+", " ", src[hits[occurrence]:j + 1]).strip()


def digest(text):
    return None if text is None else hashlib.sha256(text.encode()).hexdigest()[:16]


def current():
    cur = {}
    for mod, items in TABLE.items():
        for path, header, occ in items:
            key = f"{mod}|{path}|{header}|{occ}"
            cur[key] = digest(item_text(os.path.join(REPO, path), header, occ))
    return cur


def status(lean_modules=None):
    """[{lean_module, rust_file, item, fresh, reason}] for the literal models among `lean_modules` (all when None) that exist"""
    try:
        base = json.load(open(BASELINE))
    except (OSError, ValueError):
        base = {}
    cur = current()
    rows = []
    for mod, items in TABLE.items():
        if lean_modules is not None and mod not in lean_modules:
            continue
        if not os.path.exists(os.path.join(VERIF, "lean", *mod.split(".")) + ".lean"):
            continue
        for path, header, occ in items:
            key = f"{mod}|{path}|{header}|{occ}"
            name = re.sub(r"\\b|pub |macro_rules! ", "", header) + (f" (#{occ + 1})" if occ else "")
            if key not in base:
                fresh, why = False, "no digest recorded"
            elif cur[key] is None:
                fresh, why = False, "item not found in the current source"
            elif cur[key] != base[key]:
                fresh, why = False, "text differs from the transcribed version"
            else:
                fresh, why = True, ""
            rows.append({"lean_module": mod, "rust_file": path, "item": name, "fresh": fresh, "reason": why})
    return rows


if __name__ == "__main__":
    if "--rebase" in sys.argv:
        cur = {k: v for k, v in current().items() if v is not None}
        json.dump(cur, open(BASELINE, "w"), indent=1, sort_keys=True)
        print(f"{len(cur)} digests recorded in {BASELINE}")
    else:
        rows = status()
        for r in rows:
            print(f"{'fresh' if r['fresh'] else 'STALE'}  {r['lean_module']:28} {r['rust_file']:32} {r['item']}  {r['reason']}")
        print(f"{sum(r['fresh'] for r in rows)}/{len(rows)} transcribed items carry the transcribed text")
