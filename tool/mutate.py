#!/usr/bin/env python3
"""mutate.py — classical mutation analysis of the TIE (analysis tool, not a check).

Small syntactic mutants of /repo/src (relational operators, boolean connectives, ±1, true/false, a dropped `!`, a dropped
`.clear()` / flag reset) are applied one at a time; a mutant that still compiles AND still passes riquito/tuc's own test suite is
run against the quick checks of the properties anchored in the mutated file (most specific first) until one raises an alarm.
Survivors are either equivalent mutants or gaps of the generators; they are listed in mutation/results.jsonl for inspection.

    python3 tool/mutate.py [-n 100] [--seed 1] [--files src/stream.rs,…] [--minutes 90]

/repo is restored after every mutant (git checkout); nothing is ever committed there."""
import argparse
import json
import os
import random
import re
import subprocess
import sys
import time

V = "/verif"
ENV = dict(os.environ, RUST_BACKTRACE="0", CARGO_NET_OFFLINE="true")
FILES = ["src/cut_str.rs", "src/fast_lane.rs", "src/stream.rs", "src/cut_lines.rs", "src/cut_bytes.rs", "src/read_utils.rs",
         "src/bounds/userbounds.rs", "src/bounds/userboundslist.rs", "src/bounds/side.rs", "src/bin/tuc.rs", "src/options.rs"]
OPS = [(r"==", "!="), (r"!=", "=="), (r"<=", "<"), (r">=", ">"), (r"(?<![<=\-])<(?![<=])", "<="), (r"(?<![>=\-])>(?![>=])", ">="),
       (r"&&", "||"), (r"\|\|", "&&"), (r"\+ 1\b", "+ 0"), (r"- 1\b", "- 0"), (r"\+ 1\b", "+ 2"), (r"\btrue\b", "false"), (r"\bfalse\b", "true"),
       (r"if !", "if "), (r"\.clear\(\);", ";"), (r"\.max\(", ".min("), (r"\.min\(", ".max("), (r"\+= 1", "+= 0"), (r"\bcontinue\b", "break")]


def sh(cmd, cwd=None, timeout=300):
    """run in its own process group; on timeout the whole group is killed (a mutant may make the test binaries loop forever)"""
    import signal
    p = subprocess.Popen(cmd, cwd=cwd, env=ENV, stdout=subprocess.PIPE, stderr=subprocess.STDOUT, text=True, shell=isinstance(cmd, str), start_new_session=True)
    try:
        out, _ = p.communicate(timeout=timeout)
    except subprocess.TimeoutExpired:
        os.killpg(p.pid, signal.SIGKILL)
        p.communicate()
        raise
    return subprocess.CompletedProcess(cmd, p.returncode, out, None)


def sites(files):
    out = []
    for rel in files:
        src = open(os.path.join("/repo", rel)).read().split("\n")
        lim = next((i for i, l in enumerate(src) if re.match(r"\s*mod tests?\b", l)), len(src))
        for i, line in enumerate(src[:lim]):
            code = line.split("//")[0]
            if not code.strip() or code.strip().startswith(("#[", "use ", "eprintln", "bail!", "///")) or "=>" in code and "==" not in code and "<" not in code:
                pass
            for k, (pat, rep) in enumerate(OPS):
                for m in re.finditer(pat, code):
                    # generics / lifetimes / arrows are not comparisons
                    if pat in (r"(?<![<=\-])<(?![<=])", r"(?<![>=\-])>(?![>=])") and re.search(r"(Vec|Option|Result|Box|Range|impl|fn|struct|<'|::<|&'|->|=>|Cow|Into|From|AsRef|BufRead|Write|Iterator)", code):
                        continue
                    out.append((rel, i, m.start(), m.end(), rep, k))
    return out


def anchored_checks(rel):
    ids = []
    for line in open(os.path.join(V, "properties.jsonl")):
        d = json.loads(line)
        if rel in d["anchors"]["files"]:
            ids.append((len(d["anchors"]["files"]), d["id"]))
    order = [i for _, i in sorted(ids)]
    for extra in ("C01", "C12", "C19"):
        if extra not in order:
            order.append(extra)
    return [c for c in order if c != "C17"][:9]


def main():
    ap = argparse.ArgumentParser()
    ap.add_argument("-n", type=int, default=100)
    ap.add_argument("--seed", type=int, default=1)
    ap.add_argument("--files", default=",".join(FILES))
    ap.add_argument("--minutes", type=float, default=90)
    a = ap.parse_args()
    rng = random.Random(a.seed)
    all_sites = sites(a.files.split(","))
    rng.shuffle(all_sites)
    os.makedirs(os.path.join(V, "mutation"), exist_ok=True)
    resf = open(os.path.join(V, "mutation", "results.jsonl"), "a")
    t0 = time.time()
    done = 0
    sh("git -C /repo checkout -- .")
    for rel, ln, s, e, rep, k in all_sites:
        if done >= a.n or time.time() - t0 > a.minutes * 60:
            break
        path = os.path.join("/repo", rel)
        src = open(path).read().split("\n")
        orig = src[ln]
        src[ln] = orig[:s] + rep + orig[e:]
        rec = {"file": rel, "line": ln + 1, "original": orig.strip(), "mutant": src[ln].strip(), "seed": a.seed}
        try:
            open(path, "w").write("\n".join(src))
            b = sh("cargo build --offline 2>&1 | tail -3", "/repo")
            if "error" in b.stdout or "could not compile" in b.stdout:
                rec["outcome"] = "does-not-compile"
                continue
            t = sh("cargo test --offline 2>&1 | grep '^test result' ", "/repo")
            if "FAILED" in t.stdout or "failed" in t.stdout.replace("0 failed", "") or not t.stdout.strip():
                rec["outcome"] = "killed-by-the-repository's-own-suite"
                continue
            done += 1
            rec["outcome"] = "SURVIVES"
            rec["checks_run"] = []
            for c in anchored_checks(rel):
                p = subprocess.run([os.path.join(V, "bin", "check"), c, "--tier", "quick"], stdout=subprocess.PIPE, stderr=subprocess.DEVNULL, text=True,
                                   cwd=V, env=dict(ENV, VERIF_SCRATCH_OUT=os.path.join(V, ".build", "mutation-scratch")))
                rec["checks_run"].append(c)
                if p.returncode != 0 or "VIOLATION" in p.stdout:
                    rec["outcome"] = "caught"
                    rec["caught_by"] = c
                    rec["how"] = "tie only" if "no-failing-input-found" in p.stdout else "concrete replay"
                    break
        except subprocess.TimeoutExpired:
            rec["outcome"] = "killed-by-the-repository's-own-suite (timeout: it loops)"
        finally:
            sh("git -C /repo checkout -- .")
            resf.write(json.dumps(rec) + "\n")
            resf.flush()
            print(rec["outcome"], rel, ln + 1, "|", rec["original"][:70], "→", rec["mutant"][:70], "|", rec.get("caught_by", ""), flush=True)
    sh("cargo build --offline", os.path.join(V, "harness"))
    print("suite-surviving mutants run:", done, "in", round((time.time() - t0) / 60), "min")


if __name__ == "__main__":
    main()
