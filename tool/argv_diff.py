#!/usr/bin/env python3
"""argv_diff.py — differential test of the argv model (Tuc/Model/Argv.lean: pico_args + parse_args)
against the real binary.

Random argument vectors (every spelling pico_args accepts, clusters, values that look like
options, repeated options, unknown arguments, the --fallback-oob corner cases, ...) plus a small
stdin are run through the REAL `tuc` binary (process spawner `tuc-verif-harness cli`) and through
the Lean driver (`argv a=<hex>,.. in=<hex>`); exit status and stdout bytes must agree.

    python3 tool/argv_diff.py [-n 100000] [--seed 1] [--bin PATH] [--harness PATH] [-v]

Exit status 0 iff there is no disagreement.
"""
import argparse
import os
import random
import subprocess
import sys
from collections import Counter

sys.path.insert(0, os.path.dirname(os.path.abspath(__file__)))
import common  # noqa: E402

DEFAULT_BIN = os.path.join(common.BUILD, "tuc", "debug", "tuc")          # built by bin/setup
DEFAULT_HARNESS = common.HARNESS_BIN

BOUNDS = ["1", "2", "3", "1:2", "2:", ":2", "-1", "1,2", "2,1", "1:", "2:3", "-2:-1", "1,3", "1:1",
          "{1}-{2}", "{2}{1}", "a{1}b", "{1", "1}", "0", "", " ", "a", "3=x", "1,9=fb", "2:1", "1:-1",
          "-1,1", "{{1}}", "{{{1}}}", "1,1", "4", "1,,2", ":"]
DELIMS = [":", ",", "-", "ab", "", "-j", "=", "h", "\u00e9", '"', "'", " ", "::", "-g", "\t", "a", "b", "=:", '":"', "':'", "\":", "-d"]
REPLACES = ["-", "X", "", "-z", ",", "ab", ":", "=", "--json", "-p", "\u00e9"]
REGEX_FAMILY = ["[,:]", ":", "a+", "(ab)+", ",|:", "[ab]", ":+", "-", "[-:]", "\\.", "b"]
REGEX_KNOWN = ["\\b|\\B", "[0-9]", "a*", ".", "\\s+", "\\d", "x?", "[a-c]+", "a**"]      # = knownValidRegexes of Driver.lean
REGEX_BAD = ["(", "[a", ")", "*a", "a)", "(a", "[", "\\", "a{2,1}", "+", "a\\"]
MEMS = ["0", "1", "64", "+5", "-1", "abc", "99999999999999999999999", "+0", "00", "007",
        "18014398509481984", "18446744073709551615", "18446744073709551616", "", "+", "-", "1k", "++1", "+-1",
        "-0", " 1", "1 ", "\u0661"]
TRIMS = ["l", "R", "x", "", "b", "B", "L", "r", "left", "-l", "lr"]
FALLBACKS = ["x", "", "-", "N/A", "-z", "=", "\u00e9", '""', "''", '"q"', "'", "--json"]
UNKNOWN = ["foo", "-x", "--bogus", "-", "--", "-1", "", "1", "--fields", "-f", "-d", "--json=1", "--no-join=",
           "--help=1", "-hx", "--fallback-oob=", "--fallback-oob", "-M", "-t", "-e", "-r", "--", "-=", "-\u00e9"]
FLAG_KEYS = [("-g", "--greedy-delimiter"), ("-p", "--compress-delimiter"), ("-s", "--only-delimited"),
             ("-z", "--zero-terminated"), ("-m", "--complement"), ("-j", "--join"), (None, "--no-join"),
             (None, "--json"), ("-h", "--help"), ("-V", "--version")]
CLUSTER_LETTERS = "gpszmjgpszmjgpszmjVhdfxtrMecbl=1"

STDINS = [b"a\tb\tc\n", b"a:b:c\nd:e\n", b"a,b,,c\n", b"a-b-c\n", b"x\n", b"", b"a:b:c", b"a\x00b\x00",
          b"a:b\x00c:d\x00", "h\u00e9llo:w\u00f6rld\n".encode(), b"1 2  3\n", b"a::b:::c\n", b":a:b:\n",
          b"ab1cd22ef\n", b"l1\nl2\nl3\nl4\n", b"a\tb\n\nc\td\te\n", b"aXbabc\n", b"a=b=c\n", b"a\"b\"c\n",
          b"one two\tthree:four,five\n", b"\n", b"\n\n", b"a:b:c\r\n"]


def spell_value(rng, short, long_, val):
    """one option with a value, in one of the spellings pico_args recognises (or nearly)"""
    forms = []
    if short:
        forms += [[short, val], [short + val], [short + "=" + val], [short, val], [short + '"' + val + '"'],
                  [short + "='" + val + "'"]]
    if long_:
        forms += [[long_, val], [long_ + "=" + val], [long_, val], [long_ + '="' + val + '"'], [long_ + val],
                  [long_ + "='" + val + "'"]]
    w = rng.random()
    if w < 0.08:
        # the key alone (a missing value, or the next atom becomes the value)
        return [short or long_] if rng.random() < 0.5 or not long_ else [long_]
    return rng.choice(forms)


GOOD_BOUNDS = ["1", "2", "3", "1:2", "2:", ":2", "-1", "1,2", "2,1", "1:", "2:3", "-2:-1", "1,3", "{1}-{2}", "{2}{1}",
               "a{1}b", "3=x", "1,9=fb", "1:-1", "4"]
GOOD_DELIMS = [":", ",", "-", "ab", "=", "\u00e9", " ", "::", "\t", "a", "b"]
GOOD_MEMS = ["1", "64", "+5", "007", "18014398509481984", "18446744073709551615"]
GOOD_TRIMS = ["l", "R", "b", "B", "L", "r"]
TAME_FLAGS = [("-g", "--greedy-delimiter"), ("-p", "--compress-delimiter"), ("-s", "--only-delimited"),
              ("-z", "--zero-terminated"), ("-m", "--complement"), ("-j", "--join"), (None, "--no-join"),
              (None, "--json")]


def spell_tame(rng, short, long_, val):
    forms = []
    if short:
        forms += [[short, val], [short + val], [short + "=" + val]]
    if long_:
        forms += [[long_, val], [long_ + "=" + val]]
    return rng.choice(forms)


def tame_atom(rng):
    """an option spelled in a supported way with a sensible value"""
    k = rng.random()
    if k < 0.25:
        short, long_ = rng.choice([("-f", "--fields"), ("-f", "--fields"), ("-f", "--fields"), ("-c", "--characters"),
                                   ("-b", "--bytes"), ("-l", "--lines")])
        return spell_tame(rng, short, long_, rng.choice(GOOD_BOUNDS))
    if k < 0.42:
        return spell_tame(rng, "-d", "--delimiter", rng.choice(GOOD_DELIMS))
    if k < 0.48:
        return spell_tame(rng, "-r", "--replace-delimiter", rng.choice(["-", "X", ",", "ab", ":", "\u00e9"]))
    if k < 0.54:
        return spell_tame(rng, "-e", "--regex", rng.choice(REGEX_FAMILY))
    if k < 0.58:
        return spell_tame(rng, "-M", "--fixed-memory", rng.choice(GOOD_MEMS))
    if k < 0.64:
        return spell_tame(rng, "-t", "--trim", rng.choice(GOOD_TRIMS))
    if k < 0.70:
        v = rng.choice(["x", "-", "N/A", "\u00e9"])
        return rng.choice([["--fallback-oob", v], ["--fallback-oob=" + v], ["--fallback-oob="]])
    if k < 0.92:
        short, long_ = rng.choice(TAME_FLAGS)
        if short is None or rng.random() < 0.35:
            return [long_]
        return [short]
    n = rng.randint(2, 3)
    return ["-" + "".join(rng.sample("gpszmj", n))]


def atom(rng):
    k = rng.random()
    if k < 0.22:
        short, long_ = rng.choice([("-f", "--fields"), ("-f", "--fields"), ("-c", "--characters"), ("-b", "--bytes"),
                                   ("-l", "--lines")])
        return spell_value(rng, short, long_, rng.choice(BOUNDS))
    if k < 0.34:
        return spell_value(rng, "-d", "--delimiter", rng.choice(DELIMS))
    if k < 0.40:
        return spell_value(rng, "-r", "--replace-delimiter", rng.choice(REPLACES))
    if k < 0.46:
        pool = rng.choice([REGEX_FAMILY, REGEX_FAMILY, REGEX_KNOWN, REGEX_BAD])
        return spell_value(rng, "-e", "--regex", rng.choice(pool))
    if k < 0.53:
        return spell_value(rng, "-M", "--fixed-memory", rng.choice(MEMS))
    if k < 0.59:
        return spell_value(rng, "-t", "--trim", rng.choice(TRIMS))
    if k < 0.66:
        v = rng.choice(FALLBACKS)
        return rng.choice([["--fallback-oob", v], ["--fallback-oob=" + v], ["--fallback-oob="], ["--fallback-oob"],
                           ['--fallback-oob=""'], ["--fallback-oob='" + v + "'"], ["--fallback-oob" + v]])
    if k < 0.86:
        short, long_ = rng.choice(FLAG_KEYS)
        if short is None or rng.random() < 0.35:
            return [long_]
        return [short]
    if k < 0.94:
        n = rng.randint(2, 4)
        return ["-" + "".join(rng.choice(CLUSTER_LETTERS) for _ in range(n))]
    return [rng.choice(UNKNOWN)]


def gen_case(rng):
    r = rng.random()
    if r < 0.01:
        argv = []
    else:
        n = rng.choice([1, 1, 2, 2, 3, 3, 4, 4, 5, 6, 7])
        if r < 0.45:
            # mostly sensible command lines (a wild atom now and then), options not repeated
            atoms = []
            seen = set()
            for _ in range(n):
                at = tame_atom(rng) if rng.random() < 0.93 else atom(rng)
                key = at[0][:2] if not at[0].startswith("--") else at[0].split("=")[0]
                if key in seen:
                    continue
                seen.add(key)
                atoms.append(at)
        else:
            atoms = [atom(rng) for _ in range(n)]
        if r >= 0.45 and rng.random() < 0.25:
            atoms.append(list(rng.choice(atoms)))          # a repeated option
        rng.shuffle(atoms)
        argv = [a for at in atoms for a in at]
    if argv == [""]:
        argv = ["", ""]                                   # the spawner protocol cannot express [""]
    return argv, rng.choice(STDINS)


def run_real(bin_path, harness, cases):
    lines = [f"a={','.join(common.hx(x) for x in argv)} in={stdin.hex()}" for argv, stdin in cases]
    p = subprocess.run([harness, "cli", bin_path, "16"], input=("\n".join(lines) + "\n").encode(),
                       stdout=subprocess.PIPE, stderr=subprocess.DEVNULL, env=common.ENV)
    out = p.stdout.decode().split("\n")
    res = []
    for i in range(len(cases)):
        parts = out[i].split(" ") if i < len(out) else ["missing"]
        res.append((parts[0], bytes.fromhex(parts[1]) if len(parts) > 1 and parts[1] else b""))
    return res


def run_lean(cases):
    lines = [f"argv a={','.join(common.hx(x) for x in argv)} in={stdin.hex()}" for argv, stdin in cases]
    return [m for m, _ in common.run_model(lines)]


def agree(model, real, version_text):
    """-> (verdict, class) ; verdict in ok / skip / DIFF"""
    st, so = real
    toks = model.split(" ")
    kind = toks[0]
    if kind == "help":
        return ("ok" if st == "0" and so.startswith(b"tuc ") and so != version_text else "DIFF"), "help"
    if kind == "version":
        return ("ok" if st == "0" and so == version_text else "DIFF"), "version"
    if kind == "reject":
        return ("ok" if st == "1" and so == b"" else "DIFF"), "reject"
    if kind in ("ok", "fail"):
        out = bytes.fromhex(toks[1]) if len(toks) > 1 else b""
        want = "0" if kind == "ok" else "1"
        return ("ok" if st == want and so == out else "DIFF"), ("run-" + kind)
    if kind == "unmodelled":
        return "skip", "unmodelled"
    return "DIFF", kind


def main():
    ap = argparse.ArgumentParser()
    ap.add_argument("-n", type=int, default=100000)
    ap.add_argument("--seed", type=int, default=1)
    ap.add_argument("--bin", default=DEFAULT_BIN)
    ap.add_argument("--harness", default=DEFAULT_HARNESS)
    ap.add_argument("--batch", type=int, default=20000)
    ap.add_argument("--show", type=int, default=25)
    ap.add_argument("-v", action="store_true")
    a = ap.parse_args()
    rng = random.Random(a.seed)
    version_text = subprocess.run([a.bin, "-V"], stdout=subprocess.PIPE, env=common.ENV).stdout
    total = 0
    classes = Counter()
    diffs = []
    skipped = 0
    while total < a.n:
        k = min(a.batch, a.n - total)
        cases = [gen_case(rng) for _ in range(k)]
        real = run_real(a.bin, a.harness, cases)
        model = run_lean(cases)
        for c, m, r in zip(cases, model, real):
            v, cls = agree(m, r, version_text)
            classes[cls] += 1
            if v == "skip":
                skipped += 1
            elif v == "DIFF":
                diffs.append((c, m, r))
        total += k
        common.log(f"{total} cases, {len(diffs)} disagreements, {skipped} unmodelled")
    print(f"cases={total} agree={total - len(diffs) - skipped} unmodelled={skipped} disagree={len(diffs)} seed={a.seed}")
    print("classes: " + " ".join(f"{k}={v}" for k, v in sorted(classes.items())))
    for (argv, stdin), m, (st, so) in diffs[:a.show]:
        print(f"DISAGREE argv={argv!r} stdin={stdin!r}\n   model: {m}\n   real : exit={st} stdout={so[:80]!r}")
    return 1 if diffs else 0


if __name__ == "__main__":
    sys.exit(main())
