#!/usr/bin/env python3
"""mkprompt.py <id> <prop> <brief-key>: worktree /tmp/wt/<id> + prompt file /tmp/wt/<id>.prompt.txt"""
import json, subprocess, sys
ID, PROP, KEY = sys.argv[1:4]
W = f"/tmp/wt/{ID}"
subprocess.run(["git", "-C", "/repo", "worktree", "add", "--detach", W, "HEAD"], check=True, stdout=subprocess.DEVNULL, stderr=subprocess.DEVNULL)
props = {json.loads(l)["id"]: json.loads(l) for l in open("/verif/properties.jsonl")}
p = props[PROP]
BRIEFS = {
 "twosites": "For this exercise the change MUST consist of TWO cooperating edits at two different sites (two functions, preferably two files) that each look fine — even like an improvement — when read alone (e.g. a helper whose contract is slightly re-defined plus a caller that still assumes the old contract; a value normalised in one place and compared un-normalised in another; a state variable whose reset is moved in one place and whose read is moved in another). Reverting either edit alone must make the violation disappear or must not compile/pass the tests.",
 "refactor": "For this exercise the change MUST look like a refactoring / clean-up pull request (deduplicating two near-identical blocks, extracting a helper, replacing a hand-written loop by an iterator chain or a library call, re-ordering checks 'for readability', replacing a match by if-let chains, changing a type to a narrower/wider one …) that is ALMOST behaviour-preserving: it preserves behaviour on everything ordinary and differs only in a corner that needs something specific (see point 4).",
 "fault": "For this exercise the violation MUST need a FAULT or an unusual ENVIRONMENT at a particular point to manifest: a read error or a short read at a particular byte position, a write that fails or is short (EPIPE, ENOSPC/EFBIG after k bytes, EINTR/EAGAIN), stdout closed, stdin that is a file / a positioned file / a tty-like device, an input that ends exactly at an internal buffer boundary (8 KiB / 32 KiB / 64 KiB), an unusual TERM / NO_COLOR environment, or invalid UTF-8 at a particular place. On a fault-free run over an ordinary pipe the change must be invisible.",
 "release": "For this exercise the violation MUST manifest only (or differently) in the OPTIMIZED build that users actually install (`cargo build --release --offline`; the release profile of this project also sets panic = \"abort\") while the debug build and the test suite (which run with debug assertions and overflow checks) behave correctly or merely panic where release silently goes wrong: integer arithmetic that wraps in release but is checked in debug, a `debug_assert!` whose argument has a side effect or that guards a needed check, code under `cfg!(debug_assertions)` / `#[cfg(not(debug_assertions))]`, an `unsafe` shortcut (`get_unchecked`, `from_utf8_unchecked`, `set_len`) whose debug twin is checked, a `#[cold]`/`#[inline]`-motivated restructuring, a capacity or fast path chosen by `cfg!(…)`. Your demo.sh must build and use target/release/tuc.",
 "library": "For this exercise the change MUST sit at the boundary to a LIBRARY: replace or re-parameterise a call into bstr / memchr / regex / serde_json / pico_args / std::io (`find_iter` vs `find`, `for_byte_record` vs `for_byte_line` or `byte_lines`, `split_str`, `trim_with`, `memchr2` vs `memchr`, `read_until` vs `read_line`, `BufReader::with_capacity`, `write_all` vs `write`, `Regex::replace_all` vs `replacen`, `RegexBuilder` options such as `unicode(false)` / `multi_line`, `to_string` vs `to_writer`, `opt_value_from_str` vs `opt_value_from_fn`, `contains` order …) by a near-equivalent one whose documented behaviour differs in a corner (CRLF, invalid UTF-8, empty matches, overlapping needles, a trailing terminator, a zero-length read, an Interrupted error, case folding, a different default).",
 "generic": "Any realistic slip is welcome (an off-by-one, a condition reordered, a state variable not reset, a shortcut on a fast path, an error ignored, a comparison flipped in a corner, a conversion) as long as point 4 holds.",
 "sequence": "For this exercise the violation MUST need a multi-step HISTORY to manifest: it shows only on the k-th record (k >= 2) after particular earlier records (state carried in a reused buffer, counter, flag, cached value or the reader's position), or only for a particular ORDER of options / of bounds in the list, or only when two particular options are combined with a particular input shape. The first record of any input, and any single option alone, must behave as before.",
}
text = f"""You are a software engineer asked to play the adversary for a verification exercise. You have a private git worktree of the Rust CLI project riquito/tuc ("tuc: when cut doesn't cut it" — cuts text by fields, bytes, characters or lines) at {W} (a detached checkout; work ONLY inside that directory; do not touch /repo, /verif or any other directory — do not even read /verif; you have no network: always pass --offline to cargo and set RUST_BACKTRACE=0).

Below is a semantic PROPERTY that the current code satisfies. Your job: make ONE small, realistic-looking change to the source under {W}/src (the kind of slip or "optimisation" a maintainer could plausibly commit) such that:
  1. the project still compiles without new warnings being errors (`cargo build --offline`),
  2. the project's whole existing test suite still passes (`RUST_BACKTRACE=0 cargo test --offline` — all unit tests and tests/cli.rs; note: with RUST_BACKTRACE unset or =1 three CLI tests that compare stderr fail even on the unmodified tree; with RUST_BACKTRACE=0 everything passes on the unmodified tree — check this first),
  3. the PROPERTY is now violated,
  4. and — important — the violation does NOT show in ordinary use: it needs something specific to manifest (a particular interleaving or read segmentation, a fault at a particular point, a multi-step sequence / a particular sequence of records, an unusual input shape, a boundary value, or two cooperating sites that each look fine alone). A change that breaks the very first obvious example is not interesting.
{BRIEFS[KEY]}
Read the relevant source first (src/bin/tuc.rs, src/cut_str.rs, src/fast_lane.rs, src/stream.rs, src/cut_lines.rs, src/cut_bytes.rs, src/read_utils.rs, src/options.rs, src/bounds/*.rs, README.md, tests/cli.rs) so that the change is subtle and well placed. Assume the project is guarded by a strong randomized differential tester (random small inputs and option sets, all read segmentations of small inputs, write faults at every byte position, inputs up to ~260 KB) — aim for something such a tester would plausibly still miss, and say in the README why.

Deliverables, all inside {W}/mutant/ (create the directory):
  * patch.diff — `git diff` of your change to src/ (only src/ files; no test edits; must apply with `git apply` to the unmodified tree);
  * a demonstration that FAILS with the change and PASSES without it: demo.sh (a bash script using the built binary target/debug/tuc with printf/pipes or small helper programs, exiting 0 when the property holds and non-zero when violated; it must finish within 10 minutes) — or, if the violation cannot be shown through the binary, demo_test.rs (a Rust integration test one can drop into tests/) plus a demo.sh that copies it into tests/, runs it with cargo test --offline and removes it again;
  * README.md — 5-10 lines: what you changed, why it looks innocent, exactly what is needed for the violation to manifest, and the observed wrong behaviour vs the right one.
Verify all four points yourself before finishing: run the test suite with the change, run your demonstration with the change (fails) and on a reverted tree (passes; revert with `git apply -R mutant/patch.diff`, re-apply afterwards — do NOT use git stash, the stash is shared with other worktrees). Leave the change APPLIED in the worktree when you finish. Report briefly what you did.

PROPERTY {p['id']} — {p['title']}

STATEMENT: {p['statement']}

QUANTIFIER: {p['quantifier']}
"""
open(f"{W}.prompt.txt", "w").write(text)
print(W)
