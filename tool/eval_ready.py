#!/usr/bin/env python3
"""tool/eval_ready.py <suffix>: evaluate every finished seeded change /tmp/wt/C??<suffix>/mutant/patch.diff that has not been evaluated yet
(tool/eval_mutant.py: the property's own check first, then the checks of the properties anchored in the files the patch touches)."""
import glob
import json
import os
import re
import subprocess
import sys

SUF = sys.argv[1]
V = "/verif"


def slug(readme):
    for line in readme.split("\n"):
        t = re.sub(r"[`*#]", "", line).strip()
        if len(t) > 12:
            t = re.sub(r"^(Mutant|Seeded change|C\d\d\w*)\s*[-—:–]*\s*", "", t, flags=re.I)
            t = re.sub(r"^(C\d\d\w*)\s*[-—:–]*\s*", "", t)
            w = re.findall(r"[A-Za-z0-9_]+", t.lower())[:8]
            return "-".join(w)[:70] or "change"
    return "change"


def anchored(files, own):
    ids = []
    for line in open(os.path.join(V, "properties.jsonl")):
        d = json.loads(line)
        if any(f in d["anchors"]["files"] for f in files):
            ids.append((len(d["anchors"]["files"]), d["id"]))
    out = [own] + [i for _, i in sorted(ids) if i != own and i != "C17"]
    return out[:6]


for w in sorted(glob.glob(f"/tmp/wt/C??{SUF}")):
    patch = os.path.join(w, "mutant", "patch.diff")
    if not os.path.exists(patch) or not os.path.exists(os.path.join(w, "mutant", "README.md")):
        continue
    pid = os.path.basename(w)[:3]
    files = re.findall(r"^\+\+\+ b/(\S+)", open(patch).read(), flags=re.M)
    name = os.path.basename(w) + "-" + slug(open(os.path.join(w, "mutant", "README.md")).read())
    if glob.glob(os.path.join(V, "seeded", os.path.basename(w) + "-*")):
        continue
    checks = anchored(files, pid)
    p = subprocess.run([os.path.join(V, "tool", "eval_mutant.py"), w, pid, name] + checks, stdout=subprocess.PIPE, stderr=subprocess.DEVNULL, text=True)
    print("\n".join(l for l in p.stdout.split("\n") if l and not l.startswith('{"suite') and not l.startswith("WARNING")), flush=True)
