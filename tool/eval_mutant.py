#!/usr/bin/env python3
"""tool/eval_mutant.py <worktree> <property> <name> [checks…]: confirm a seeded change made by an independent
sub-agent (suite passes with it, demo fails with it and passes without), run the checks against it (default: all 19),
keep it as /verif/seeded/<name>/ with meta.json, and remove the scratch worktree."""
import json
import os
import shutil
import subprocess
import sys

W, PID, NAME = sys.argv[1], sys.argv[2], sys.argv[3]
CHECKS = sys.argv[4:] or ["C%02d" % i for i in range(1, 20)]
ENV = dict(os.environ, RUST_BACKTRACE="0", CARGO_NET_OFFLINE="true")


def sh(cmd, cwd=None):
    return subprocess.run(cmd, cwd=cwd, env=ENV, stdout=subprocess.PIPE, stderr=subprocess.STDOUT, text=True, shell=isinstance(cmd, str))


conf = {}
sh("cargo build --offline", W)
t = sh("cargo test --offline 2>&1 | grep '^test result'", W).stdout
conf["suite_with_change"] = " | ".join(x.split(";")[0].replace("test result: ", "") for x in t.strip().split("\n"))
conf["suite_passes"] = "FAILED" not in t and "failed" not in t.replace("0 failed", "")
demo = os.path.join(W, "mutant", "demo.sh")
if os.path.exists(demo):
    conf["demo_with_change_exit"] = sh("bash mutant/demo.sh", W).returncode
    # revert / restore with the patch itself (the stash is shared by every worktree of the repository)
    saved = W.rstrip("/") + ".eval.diff"
    open(saved, "w").write(sh("git diff -- src", W).stdout)
    sh(f"git apply -R {saved}", W)
    sh("cargo build --offline", W)
    conf["demo_without_change_exit"] = sh("bash mutant/demo.sh", W).returncode
    sh(f"git apply {saved}", W)
    os.remove(saved)
conf["patch_matches"] = sh("git apply --check --reverse mutant/patch.diff", W).returncode == 0
ok = conf["suite_passes"] and conf.get("demo_with_change_exit", 1) != 0 and conf.get("demo_without_change_exit", 0) == 0 and conf["patch_matches"]
print(json.dumps(conf))
if not ok:
    print("NOT CONFIRMED — kept nothing")
    sys.exit(1)
patch = os.path.join(W, "mutant", "patch.diff")
subprocess.run(["git", "-C", "/repo", "checkout", "--", "."], check=True)
if subprocess.run(["git", "-C", "/repo", "apply", patch]).returncode != 0:
    sys.exit("patch does not apply to /repo")
res = {}
try:
    for c in CHECKS:
        p = subprocess.run(["/verif/bin/check", c, "--tier", "quick"], stdout=subprocess.PIPE, stderr=subprocess.DEVNULL, text=True, cwd="/verif")
        viol = [l for l in p.stdout.split("\n") if l.startswith("VIOLATION")]
        res[c] = {"exit": p.returncode, "violation": viol[0] if viol else "", "summary": p.stdout.strip().split("\n")[-1]}
finally:
    subprocess.run(["git", "-C", "/repo", "checkout", "--", "."], check=True)
    subprocess.run(["cargo", "build", "--offline"], cwd="/verif/harness", env=dict(ENV, CARGO_TARGET_DIR="/verif/.build/harness"), stdout=subprocess.DEVNULL, stderr=subprocess.DEVNULL)
caught = {c: ("no-failing-input-found (tie only)" if "no-failing-input-found" in r["violation"] else "concrete replay") for c, r in res.items() if r["exit"] == 1}
d = f"/verif/seeded/{NAME}"
os.makedirs(d, exist_ok=True)
for f in os.listdir(os.path.join(W, "mutant")):
    shutil.copy(os.path.join(W, "mutant", f), d)
readme = open(os.path.join(d, "README.md")).read() if os.path.exists(os.path.join(d, "README.md")) else ""
json.dump({"property": PID, "needs_to_manifest": "see README.md (written by the sub-agent that made the change)", "confirmed": conf,
           "ran": "tool/eval_mutant.py: " + " ".join(CHECKS), "caught_by": caught, "own_check_catches": PID in caught,
           "checks_run": {c: r["summary"] for c, r in res.items()}}, open(os.path.join(d, "meta.json"), "w"), indent=1)
subprocess.run(["git", "-C", "/repo", "worktree", "remove", "--force", W])
print(f"{NAME}: own check {'CATCHES' if PID in caught else 'MISSES'}; caught by {sorted(caught)}")
