#!/usr/bin/env python3
"""tool/eval_harmless.py <worktree> <name> [checks…]: a BEHAVIOUR-PRESERVING change made by an independent sub-agent
(refactoring / clean-up / buffer size / message wording).  Confirms the suite passes with it, applies it to /repo, runs the
checks (default: all 19, quick tier) — none of them may raise an alarm —, keeps it under /verif/harmless/<name>/ with
meta.json, undoes it and removes the scratch worktree."""
import json
import os
import shutil
import subprocess
import sys

W, NAME = sys.argv[1], sys.argv[2]
CHECKS = sys.argv[3:] or ["C%02d" % i for i in range(1, 20)]
ENV = dict(os.environ, RUST_BACKTRACE="0", CARGO_NET_OFFLINE="true")


def sh(cmd, cwd=None):
    return subprocess.run(cmd, cwd=cwd, env=ENV, stdout=subprocess.PIPE, stderr=subprocess.STDOUT, text=True, shell=isinstance(cmd, str))


conf = {}
sh("cargo build --offline", W)
t = sh("cargo test --offline 2>&1 | grep '^test result'", W).stdout
conf["suite_with_change"] = " | ".join(x.split(";")[0].replace("test result: ", "") for x in t.strip().split("\n"))
conf["suite_passes"] = "FAILED" not in t and "failed" not in t.replace("0 failed", "")
conf["patch_matches"] = sh("git apply --check --reverse mutant/patch.diff", W).returncode == 0
conf["changed_lines"] = sh("git diff --shortstat -- src", W).stdout.strip()
print(json.dumps(conf))
if not (conf["suite_passes"] and conf["patch_matches"]):
    print("NOT USABLE — kept nothing")
    sys.exit(1)
patch = os.path.join(W, "mutant", "patch.diff")
subprocess.run(["git", "-C", "/repo", "checkout", "--", "."], check=True)
if subprocess.run(["git", "-C", "/repo", "apply", patch]).returncode != 0:
    sys.exit("patch does not apply to /repo")
res = {}
try:
    for c in CHECKS:
        p = subprocess.run(["/verif/bin/check", c, "--tier", "quick"], stdout=subprocess.PIPE, stderr=subprocess.DEVNULL, text=True, cwd="/verif")
        viol = [l for l in p.stdout.split("\n") if l.startswith("VIOLATION")]
        rep = ""
        if viol and "replay=" in viol[0]:
            rp = viol[0].split("replay=")[1].split()[0]
            try:
                body = json.load(open(rp))
                rep = body.get("description", "") + " :: " + json.dumps(body.get("replay", {}))[:600]
            except Exception as e:       # noqa: BLE001
                rep = str(e)
        res[c] = {"exit": p.returncode, "violation": viol[0] if viol else "", "what": rep, "summary": p.stdout.strip().split("\n")[-1]}
finally:
    subprocess.run(["git", "-C", "/repo", "checkout", "--", "."], check=True)
    subprocess.run(["cargo", "build", "--offline"], cwd="/verif/harness", env=dict(ENV, CARGO_TARGET_DIR="/verif/.build/harness"), stdout=subprocess.DEVNULL, stderr=subprocess.DEVNULL)
alarms = {c: r for c, r in res.items() if r["exit"] != 0 or r["violation"]}
d = f"/verif/harmless/{NAME}"
os.makedirs(d, exist_ok=True)
for f in os.listdir(os.path.join(W, "mutant")):
    shutil.copy(os.path.join(W, "mutant", f), d)
json.dump({"kind": "behaviour-preserving change", "confirmed": conf, "ran": "tool/eval_harmless.py: " + " ".join(CHECKS),
           "alarms": {c: {"violation": r["violation"], "what": r["what"]} for c, r in alarms.items()}, "quiet": not alarms,
           "checks_run": {c: r["summary"] for c, r in res.items()}}, open(os.path.join(d, "meta.json"), "w"), indent=1)
subprocess.run(["git", "-C", "/repo", "worktree", "remove", "--force", W])
print(f"{NAME}: " + ("QUIET (no check raised an alarm)" if not alarms else "ALARMS from " + ", ".join(alarms)))
for c, r in alarms.items():
    print("   ", c, r["violation"], "\n      ", r["what"][:500])
