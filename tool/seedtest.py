#!/usr/bin/env python3
"""tool/seedtest.py <patch.diff> <check ids…>: apply a seeded change to /repo, run the named checks
(quick tier), report which of them raise a VIOLATION, and undo the change straight afterwards."""
import subprocess
import sys

patch = sys.argv[1]
checks = sys.argv[2:]
subprocess.run(["git", "-C", "/repo", "checkout", "--", "."], check=True)
r = subprocess.run(["git", "-C", "/repo", "apply", patch])
if r.returncode != 0:
    sys.exit("patch does not apply")
res = {}
try:
    for c in checks:
        p = subprocess.run(["/verif/bin/check", c, "--tier", "quick"], stdout=subprocess.PIPE, stderr=subprocess.DEVNULL, text=True, cwd="/verif")
        viol = [l for l in p.stdout.split("\n") if l.startswith("VIOLATION")]
        res[c] = (p.returncode, viol[0] if viol else "", p.stdout.strip().split("\n")[-1])
finally:
    subprocess.run(["git", "-C", "/repo", "checkout", "--", "."], check=True)
    # rebuild the harness against the restored tree so later checks start clean
    subprocess.run(["cargo", "build", "--offline"], cwd="/verif/harness", env=dict(__import__("os").environ, CARGO_TARGET_DIR="/verif/.build/harness", CARGO_NET_OFFLINE="true"),
                   stdout=subprocess.DEVNULL, stderr=subprocess.DEVNULL)
for c, (rc, v, last) in res.items():
    print(f"{c}: exit={rc} {'CAUGHT ' + v if rc == 1 else 'missed'}\n      {last}")
