#!/usr/bin/env python3
"""tool/recheck_harmless.py [names…]: re-run every quick check against the kept behaviour-preserving changes (harmless/*/patch.diff) — after the
generators or oracles were strengthened none of them may start raising an alarm.  Applies each patch to /repo, runs the 19 checks, undoes it.
A patch that no longer applies to /repo's HEAD (the code moved on) is reported as such and skipped.  Writes harmless/RECHECK.json."""
import glob
import json
import os
import subprocess
import sys

ENV = dict(os.environ, RUST_BACKTRACE="0", CARGO_NET_OFFLINE="true")
names = sys.argv[1:] or sorted(os.path.basename(os.path.dirname(p)) for p in glob.glob("/verif/harmless/*/patch.diff"))
out = {}
head = subprocess.run(["git", "-C", "/repo", "rev-parse", "--short", "HEAD"], stdout=subprocess.PIPE, text=True).stdout.strip()
for n in names:
    patch = f"/verif/harmless/{n}/patch.diff"
    subprocess.run(["git", "-C", "/repo", "checkout", "--", "."], check=True)
    if subprocess.run(["git", "-C", "/repo", "apply", "--3way", patch], stdout=subprocess.DEVNULL, stderr=subprocess.DEVNULL).returncode != 0 or \
            subprocess.run(["git", "-C", "/repo", "diff", "--quiet", "--diff-filter=U"]).returncode != 0:
        subprocess.run(["git", "-C", "/repo", "checkout", "--", "."])
        subprocess.run(["git", "-C", "/repo", "reset", "-q"])
        out[n] = {"applies_to": head, "applied": False}
        print(n, "does not apply to", head)
        continue
    subprocess.run(["git", "-C", "/repo", "reset", "-q"])
    res = {}
    try:
        for i in range(1, 20):
            c = "C%02d" % i
            p = subprocess.run(["/verif/bin/check", c, "--tier", "quick"], stdout=subprocess.PIPE, stderr=subprocess.DEVNULL, text=True, cwd="/verif",
                               env=dict(os.environ, VERIF_SCRATCH_OUT="/verif/.build/recheck-out"))
            viol = [l for l in p.stdout.split("\n") if l.startswith("VIOLATION")]
            res[c] = {"exit": p.returncode, "violation": viol[0] if viol else ""}
    finally:
        subprocess.run(["git", "-C", "/repo", "checkout", "--", "."], check=True)
    alarms = {c: r for c, r in res.items() if r["exit"] != 0 or r["violation"]}
    out[n] = {"applies_to": head, "applied": True, "quiet": not alarms, "alarms": alarms}
    print(n, "quiet" if not alarms else f"ALARMS {alarms}")
subprocess.run(["cargo", "build", "--offline"], cwd="/verif/harness", env=dict(ENV, CARGO_TARGET_DIR="/verif/.build/harness"), stdout=subprocess.DEVNULL, stderr=subprocess.DEVNULL)
json.dump(out, open("/verif/harmless/RECHECK.json", "w"), indent=1)
