"""Shared machinery of the checks (DESIGN.md §2.4, §2.5).

  * builds: Lean property modules + audit, driver, Rust harness, tuc binaries (always from
    /repo's current working tree)
  * case serialisation (one case per line, byte strings hex-encoded)
  * sharded execution of the harness (implementation) and the Lean driver (model + spec)
  * known findings, violation reporting, evidence files
"""
import hashlib
import json
import os
import random
import re
import subprocess
import sys
import time
from concurrent.futures import ThreadPoolExecutor

VERIF = os.path.dirname(os.path.dirname(os.path.abspath(__file__)))
REPO = os.environ.get("TUC_REPO", "/repo")
BUILD = os.path.join(VERIF, ".build")
LEAN = os.path.join(VERIF, "lean")
HARNESS_BIN = os.path.join(BUILD, "harness", "debug", "tuc-verif-harness")
DRIVER_BIN = os.path.join(LEAN, ".lake", "build", "bin", "driver")
TUC_DEBUG = os.path.join(BUILD, "tuc", "debug", "tuc")
TUC_RELEASE = os.path.join(BUILD, "tuc", "release", "tuc")
NPROC = 16
ACCEPTED_AXIOMS = {"propext", "Classical.choice", "Quot.sound"}
FORBIDDEN = re.compile(
    r"\b(sorry|admit|native_decide|bv_decide|implemented_by|unsafe|maxHeartbeats\s+0)\b|^\s*axiom\s", re.M
)

ENV = dict(os.environ)
ENV.update({"CARGO_NET_OFFLINE": "true", "RUST_BACKTRACE": "0"})


def log(*a):
    print(*a, file=sys.stderr, flush=True)


def hx(b):
    if isinstance(b, str):
        b = b.encode("utf-8")
    return b.hex()


# ------------------------------------------------------------------------------------------------
# cases


def case_line(c):
    """Serialise a case dict. Keys with value None are omitted; bytes/str values are hex-encoded
    except for the short symbolic keys."""
    kind = c.get("kind", "cut")
    toks = [kind]
    for k, v in c.items():
        if k in ("kind", "meta") or v is None:
            continue
        if isinstance(v, bool):
            if v:
                toks.append(f"{k}=1")
        elif isinstance(v, (bytes, bytearray)):
            toks.append(f"{k}={bytes(v).hex()}")
        elif isinstance(v, int):
            toks.append(f"{k}={v}")
        elif isinstance(v, (list, tuple)):
            toks.append(f"{k}=" + ",".join(str(x) for x in v) if v else f"{k}=-")
        elif k in ("b", "s", "re"):
            toks.append(f"{k}={v.encode('utf-8').hex()}")
        else:
            toks.append(f"{k}={v}")
    return " ".join(toks)


def parse_result(s):
    """'ok 6162' -> ('ok', b'ab'); 'fail' -> ('fail', b''); other words kept as status."""
    parts = s.strip().split(" ")
    st = parts[0]
    out = b""
    if len(parts) > 1 and st in ("ok", "fail", "panic", "hang"):
        try:
            out = bytes.fromhex(parts[1])
        except ValueError:
            return (s.strip(), b"")
        return (st, out)
    return (s.strip(), b"")


# ------------------------------------------------------------------------------------------------
# builds


def run_cmd(cmd, cwd=None, timeout=3600, env=None):
    p = subprocess.run(cmd, cwd=cwd, env=env or ENV, stdout=subprocess.PIPE, stderr=subprocess.STDOUT,
                       timeout=timeout, text=True)
    return p.returncode, p.stdout


def build_harness():
    lock_src = os.path.join(REPO, "Cargo.lock")
    lock_dst = os.path.join(VERIF, "harness", "Cargo.lock")
    try:
        if open(lock_src, "rb").read() != open(lock_dst, "rb").read():
            open(lock_dst, "wb").write(open(lock_src, "rb").read())
    except OSError:
        pass
    env = dict(ENV)
    env["CARGO_TARGET_DIR"] = os.path.join(BUILD, "harness")
    rc, out = run_cmd(["cargo", "build", "--offline"], cwd=os.path.join(VERIF, "harness"), env=env)
    if rc != 0:
        raise BuildError("harness build failed (does /repo still compile?)\n" + out[-3000:])


def build_tuc(release=False):
    env = dict(ENV)
    env["CARGO_TARGET_DIR"] = os.path.join(BUILD, "tuc")
    cmd = ["cargo", "build", "--offline"] + (["--release"] if release else [])
    rc, out = run_cmd(cmd, cwd=REPO, env=env)
    if rc != 0:
        raise BuildError("tuc build failed\n" + out[-3000:])
    return TUC_RELEASE if release else TUC_DEBUG


def build_tuc_nofast():
    """the same sources without the fast-lane feature: every field-mode invocation goes through the general path"""
    env = dict(ENV)
    env["CARGO_TARGET_DIR"] = os.path.join(BUILD, "tuc-nofast")
    rc, out = run_cmd(["cargo", "build", "--offline", "--no-default-features", "--features", "regex"], cwd=REPO, env=env)
    if rc != 0:
        raise BuildError("tuc build (no fast-lane) failed\n" + out[-3000:])
    return os.path.join(BUILD, "tuc-nofast", "debug", "tuc")


def build_tuc_noregex():
    """the same sources built with --no-default-features: the `#[cfg(not(feature = "regex"))]` twins of the code are compiled instead"""
    env = dict(ENV)
    env["CARGO_TARGET_DIR"] = os.path.join(BUILD, "tuc-noregex")
    rc, out = run_cmd(["cargo", "build", "--offline", "--no-default-features"], cwd=REPO, env=env)
    if rc != 0:
        raise BuildError("tuc build (--no-default-features) failed\n" + out[-3000:])
    return os.path.join(BUILD, "tuc-noregex", "debug", "tuc")


class BuildError(Exception):
    pass


def strip_comments(src):
    # remove /- ... -/ (nested not handled beyond one level) and -- ... comments
    out = []
    i = 0
    depth = 0
    n = len(src)
    while i < n:
        if src.startswith("/-", i):
            depth += 1
            i += 2
        elif src.startswith("-/", i) and depth > 0:
            depth -= 1
            i += 2
        elif depth > 0:
            i += 1
        elif src.startswith("--", i):
            j = src.find("\n", i)
            i = n if j < 0 else j
        else:
            out.append(src[i])
            i += 1
    return "".join(out)


def lean_closure(modules):
    """source files of the project transitively imported by `modules`"""
    seen, todo = set(), list(modules)
    while todo:
        m = todo.pop()
        path = os.path.join(LEAN, *m.split(".")) + ".lean"
        if path in seen or not os.path.exists(path):
            continue
        seen.add(path)
        for im in re.findall(r"^import\s+(Tuc\.[A-Za-z0-9_.]+)", open(path).read(), re.M):
            todo.append(im)
    return seen


def lean_check(prop_id, tier="quick"):
    """Build the property's theorems and audit their axioms (thorough tier: also replay the compiled modules through `leanchecker`,
    the toolchain's independent re-checker of .olean files).
    Returns dict(obligations, discharged, theorems=[(name, axioms)], broken=[...], checker_cmd)."""
    t0 = time.time()
    from gen_audit import prop_modules, theorem_names
    mods = prop_modules(prop_id)
    targets = [f"Tuc.Props.{m}" for m in mods] + ["driver"]
    rc, out = run_cmd(["lake", "build"] + targets, cwd=LEAN)
    res = {"obligations": 0, "discharged": 0, "theorems": [], "broken": [],
           "checker_cmd": f"cd /verif/lean && lake build {' '.join('Tuc.Props.' + m for m in mods)} driver && lake env lean Tuc/Audit/{prop_id}.lean  (#print axioms per theorem; accepted: propext, Classical.choice, Quot.sound)",
           "build_ok": rc == 0, "build_log": out[-4000:] if rc != 0 else ""}
    if rc != 0:
        res["broken"].append(f"lake build {' '.join(targets)} failed")
        return res
    # forbidden tokens in every Lean source the property's theorems (and the driver) depend on
    for path in sorted(lean_closure([f"Tuc.Props.{m}" for m in mods] + ["Driver"])):
        src = strip_comments(open(path).read())
        m = FORBIDDEN.search(src)
        if m:
            res["broken"].append(f"forbidden token {m.group(0).strip()!r} in {os.path.relpath(path, LEAN)}")
    audit = os.path.join(LEAN, "Tuc", "Audit", f"{prop_id}.lean")
    rc, out = run_cmd(["lake", "env", "lean", audit], cwd=LEAN)
    if rc != 0:
        res["broken"].append("audit file failed to elaborate: " + out[-2000:])
    # parse "'name' depends on axioms: [a, b]" / "'name' does not depend on any axioms"
    for m in re.finditer(r"^'(.+?)' (depends on axioms: \[([^\]]*)\]|does not depend on any axioms)", out, re.M):
        name = m.group(1)
        axioms = [a.strip() for a in (m.group(3) or "").replace("\n", " ").split(",") if a.strip()]
        res["theorems"].append((name, axioms))
        res["obligations"] += 1
        if set(axioms) <= ACCEPTED_AXIOMS:
            res["discharged"] += 1
        else:
            res["broken"].append(f"theorem {name} depends on {axioms}")
    # every public theorem of the property's files must be audited
    declared = []
    for m in mods:
        declared.extend(theorem_names(m))
    audited = {n for n, _ in res["theorems"]}
    for d in declared:
        if d not in audited:
            res["broken"].append(f"theorem {d} is not audited")
    if tier == "thorough":
        # independent replay of every declaration of the property's modules by the external kernel checker
        res["leanchecker"] = {}
        for m in mods:
            rc, out = run_cmd(["lake", "env", "leanchecker", f"Tuc.Props.{m}"], cwd=LEAN)
            res["leanchecker"][m] = "ok" if rc == 0 else out[-600:]
            if rc != 0:
                res["broken"].append(f"leanchecker rejects Tuc.Props.{m}: {out[-300:]}")
        res["checker_cmd"] += "; thorough: lake env leanchecker " + " ".join("Tuc.Props." + m for m in mods)
    res["lean_wall_s"] = round(time.time() - t0, 1)
    return res


# ------------------------------------------------------------------------------------------------
# sharded execution


def _run_shard(cmd, lines, restart_on_hang):
    """Run `cmd` with the lines on stdin; return list of output lines (same length)."""
    results = []
    pending = lines
    while pending:
        p = subprocess.run(cmd, input=("\n".join(pending) + "\n").encode(), stdout=subprocess.PIPE,
                           stderr=subprocess.DEVNULL, env=ENV)
        out = p.stdout.decode("utf-8", "replace").split("\n")
        if out and out[-1] == "":
            out.pop()
        if p.returncode == 3 and restart_on_hang and out and out[-1] == "hang":
            # the case at index len(out)-1 hung
            results.extend(out)
            pending = pending[len(out):]
            continue
        if len(out) < len(pending):
            # crashed (abort / allocation failure): mark the first unanswered case and go on
            results.extend(out)
            results.append("killed")
            pending = pending[len(out) + 1:]
            continue
        results.extend(out[:len(pending)])
        pending = []
    return results


def run_sharded(cmd, lines, restart_on_hang=False, shards=NPROC):
    if not lines:
        return []
    shards = max(1, min(shards, (len(lines) + 199) // 200))
    size = (len(lines) + shards - 1) // shards
    chunks = [lines[i:i + size] for i in range(0, len(lines), size)]
    with ThreadPoolExecutor(max_workers=len(chunks)) as ex:
        outs = list(ex.map(lambda ch: _run_shard(cmd, ch, restart_on_hang), chunks))
    res = []
    for o in outs:
        res.extend(o)
    return res


_DUMP_N = [0]


def run_impl(lines):
    dump = os.environ.get("VERIF_DUMP_CASES")
    if dump and lines:
        os.makedirs(dump, exist_ok=True)
        _DUMP_N[0] += 1
        with open(os.path.join(dump, f"{os.getpid()}-{_DUMP_N[0]}.cases"), "w") as f:
            f.write("\n".join(lines) + "\n")
    return run_sharded([HARNESS_BIN, "run"], lines, restart_on_hang=True)


def run_model(lines):
    """returns list of (model_result, spec_result) strings"""
    outs = run_sharded([DRIVER_BIN], lines)
    res = []
    for o in outs:
        if "\t" in o:
            a, b = o.split("\t", 1)
        else:
            a, b = o, "-"
        res.append((a, b))
    return res


def run_cli(bin_path, cases, threads=NPROC, retry=True, stdin_files=True):
    """cases: list of (argv list of bytes/str, stdin bytes) -> list of (status str, stdout bytes)"""
    lines = []
    for k, (argv, stdin) in enumerate(cases):
        a = ",".join(hx(x) for x in argv)
        # how stdin is provided must not matter: a pipe, a regular file, or a regular file whose descriptor is already positioned past some
        # earlier content (`{ read header; tuc …; } < file`) — chosen by the case's position so that a run is reproducible
        how = ("", " sf=0", " sf=7")[(k * 2654435761 >> 7) % 3] if stdin_files else ""
        lines.append(f"a={a} in={stdin.hex()}{how}")
    os.makedirs(os.path.join(BUILD, "tmp"), exist_ok=True)
    p = subprocess.run([HARNESS_BIN, "cli", bin_path, str(threads)], input=("\n".join(lines) + "\n").encode(),
                       stdout=subprocess.PIPE, stderr=subprocess.DEVNULL, env=dict(ENV, VERIF_TMP=os.path.join(BUILD, "tmp")))
    out = p.stdout.decode().split("\n")
    res = []
    for i in range(len(cases)):
        parts = out[i].split(" ") if i < len(out) else ["missing"]
        st = parts[0]
        so = bytes.fromhex(parts[1]) if len(parts) > 1 and parts[1] else b""
        res.append((st if st else "missing", so))
    miss = [i for i, (st, _) in enumerate(res) if st == "missing"]
    if miss and retry:
        # the spawner itself lost these: once more, on their own, before anything is concluded from them
        for i, r in zip(miss, run_cli(bin_path, [cases[i] for i in miss], threads, retry=False, stdin_files=False)):
            res[i] = r
    return res


# ------------------------------------------------------------------------------------------------
# known findings


def load_known_findings():
    path = os.path.join(VERIF, "KNOWN_FINDINGS.txt")
    findings = []
    if os.path.exists(path):
        for line in open(path):
            line = line.strip()
            if line.startswith("finding:"):
                m = re.match(r"finding:\s+property=(\S+)\s+key=(\S+)\s+(.*)", line)
                if m:
                    findings.append({"property": m.group(1), "key": m.group(2), "what": m.group(3)})
    return findings


# ------------------------------------------------------------------------------------------------
# the check context


class Check:
    def __init__(self, prop_id, tier, seed, level="proof"):
        self.prop_id = prop_id
        self.tier = tier
        self.seed = seed
        self.level = level
        self.rng = random.Random(seed)
        self.t0 = time.time()
        self.violations = []          # (kind, description, replay dict)
        self.known_hits = {}          # key -> count
        self.evaluations = 0
        self.nontrivial = set()
        self.samples = []
        self.hist = {}
        self.disagreements_checked = 0
        self.model_disagreements = 0
        self.oracle_failures = 0
        self.lean = None
        self.notes = []
        self.rule = ""
        self.exhaustive = False
        self.extra = {}
        self.findings = [f for f in load_known_findings() if f["property"] == prop_id]
        # (the coverage gate re-runs the quick generation only to collect its cases: that run writes into a scratch directory)
        self.out_root = os.environ.get("VERIF_SCRATCH_OUT") or VERIF
        os.makedirs(os.path.join(self.out_root, "replays"), exist_ok=True)
        os.makedirs(os.path.join(self.out_root, "evidence"), exist_ok=True)

    # -- bookkeeping
    def count(self, key, n=1):
        self.hist[key] = self.hist.get(key, 0) + n

    def nontrivial_add(self, key):
        self.nontrivial.add(hashlib.blake2b(repr(key).encode(), digest_size=8).digest())

    def sample(self, obj, limit=6):
        if len(self.samples) < limit:
            self.samples.append(obj)

    # -- violations
    def report_oracle(self, description, replay, finding_key=None):
        """A failing input shown against the implementation (step 4 of DESIGN §2.5)."""
        self.oracle_failures += 1
        if finding_key is not None:
            for f in self.findings:
                if f["key"] == finding_key:
                    self.known_hits[finding_key] = self.known_hits.get(finding_key, 0) + 1
                    return
        if sum(1 for v in self.violations if v[0] == "oracle") < 20:
            self.violations.append(("oracle", description, replay))

    def report_tie(self, description, replay):
        """implementation != model, or a theorem that no longer checks (step 5)."""
        self.model_disagreements += 1
        if sum(1 for v in self.violations if v[0] == "tie") < 20:
            self.violations.append(("tie", description, replay))

    def finish(self):
        wall = round(time.time() - self.t0, 1)
        lean = self.lean or {"obligations": 0, "discharged": 0, "checker_cmd": "", "theorems": [], "broken": []}
        for b in lean.get("broken", []):
            self.violations.append(("tie", "proof obligation no longer checks: " + b,
                                    {"theorem_or_component": b, "build_log": lean.get("build_log", "")}))
        oracle_v = [v for v in self.violations if v[0] == "oracle"]
        tie_v = [v for v in self.violations if v[0] == "tie"]
        printed = []
        status = 0
        if oracle_v:
            kind, desc, replay = oracle_v[0]
            path = self._write_replay(desc, replay, "oracle", others=oracle_v[1:] + tie_v)
            printed.append(f"VIOLATION property={self.prop_id} replay={path}")
            status = 1
        elif tie_v:
            kind, desc, replay = tie_v[0]
            path = self._write_replay(desc, replay, "tie", others=tie_v[1:])
            printed.append(f"VIOLATION property={self.prop_id} replay={path} no-failing-input-found")
            status = 1
        for f in self.findings:
            # a listed finding is announced on every run, whether or not this run's sample hit it
            printed.append(f"KNOWN-FINDING: property={self.prop_id} {f['what']} (hit {self.known_hits.get(f['key'], 0)} times in this run)")
        coverage = {
            "obligations": lean["obligations"],
            "discharged": lean["discharged"],
            "checker_cmd": lean["checker_cmd"],
            "trusted_base": TRUSTED_BASE,
            "theorems": [{"name": n, "axioms": a} for n, a in lean.get("theorems", [])],
            "evaluations": self.evaluations,
            "distinct_nontrivial": len(self.nontrivial),
            "rule": self.rule,
            "samples": self.samples,
            "programs": 1,
            "disagreements_checked": self.disagreements_checked,
            "implementation_vs_oracle_failures": self.oracle_failures,
            "implementation_vs_model_disagreements": self.model_disagreements,
            "branch_histogram": dict(sorted(self.hist.items())),
            "exhaustive": self.exhaustive,
            "explanation": "; ".join(self.notes),
        }
        coverage.update(self.extra)
        # bookkeeping of the statement-by-statement transcriptions this property's theorems rest on (tool/transcripts.py):
        # informational — a stale transcription is not a violation, the differential correspondence above is what decides
        try:
            import transcripts
            from gen_audit import prop_modules
            closure = {os.path.relpath(p_, LEAN)[:-5].replace(os.sep, ".") for p_ in lean_closure([f"Tuc.Props.{m}" for m in prop_modules(self.prop_id)])}
            rows = transcripts.status(closure)
            coverage["literal_transcriptions"] = rows
            for r_ in rows:
                if not r_["fresh"]:
                    printed.append(f"NOTE: property={self.prop_id} the transcription of {r_['rust_file']} {r_['item']} in {r_['lean_module']} is stale ({r_['reason']}): "
                                   "its refinement theorem speaks about an earlier version of that function; the correspondence run above is what ties this run to the current code")
        except Exception as e:  # never let bookkeeping break a check
            coverage["literal_transcriptions"] = [{"error": repr(e)}]
        ev = {
            "property_id": self.prop_id,
            "tier": self.tier,
            "seed": self.seed,
            "level": self.level,
            "coverage": coverage,
            "assumptions": ASSUMPTIONS,
            "wall_s": wall,
            "violations": len(self.violations),
        }
        with open(os.path.join(self.out_root, "evidence", f"{self.prop_id}.json"), "w") as f:
            json.dump(ev, f, indent=1, default=_json_default)
        for line in printed:
            print(line)
        print(f"{self.prop_id} tier={self.tier} seed={self.seed}: theorems {lean['discharged']}/{lean['obligations']}, "
              f"{self.evaluations} evaluations, {len(self.nontrivial)} distinct non-trivial, "
              f"oracle failures {self.oracle_failures}, model disagreements {self.model_disagreements}, {wall}s")
        return status

    def _write_replay(self, desc, replay, kind, others=()):
        body = {"property": self.prop_id, "kind": kind, "description": desc, "replay": replay,
                "seed": self.seed, "tier": self.tier,
                "other_violations": [{"kind": k, "description": d, "replay": r} for k, d, r in list(others)[:10]]}
        h = hashlib.blake2b(json.dumps(body, sort_keys=True, default=_json_default).encode(), digest_size=6).hexdigest()
        path = os.path.join(self.out_root, "replays", f"{self.prop_id}-{h}.json")
        with open(path, "w") as f:
            json.dump(body, f, indent=1, default=_json_default)
        return path


def _json_default(o):
    if isinstance(o, (bytes, bytearray)):
        return {"hex": bytes(o).hex(), "text": bytes(o).decode("utf-8", "backslashreplace")}
    if isinstance(o, set):
        return sorted(o)
    return str(o)


TRUSTED_BASE = [
    "Lean 4.33.0 kernel; axioms limited to propext, Classical.choice, Quot.sound (audited with #print axioms per theorem); no native_decide, no sorry",
    "the hand-written Lean model corresponds to /repo's source: checked on every run by differential execution (Rust harness calling the real pub entry points in-process vs the compiled Lean driver), bounded by the generators reported in this file",
    "library code TRANSCRIBED from its source text and proved equal to the model function the theorems use (trusted there: that the transcription reads the text faithfully): bstr for_byte_record_with_terminator, std read_until / read_to_end, memmem FindIter::next, serde_json format_escaped_str + ESCAPE table, core run_utf8_validation + UTF8_CHAR_WIDTH, core i32 from_str, regex replace_all (NoExpand); modelled by what they compute, not verified: the regex engine's matching (a matcher satisfying the find_iter contract), bstr replace / trim_*_with, memchr's vector code, BufReader / BufWriter / LineWriter, pico_args (modelled step by step in Model/Argv.lean), process exit codes",
    "python comparator/generators and the Rust harness report faithfully (their failure mode is a false alarm or a missed disagreement, never a false theorem)",
]
ASSUMPTIONS = [
    "parts per record < 2^31 (i32 casts in try_into_range)",
    "the correspondence is differential testing: it covers the inputs generated, not all inputs",
]


def cmp_model(chk, cases, impl, model, component, skip=("unmodelled",)):
    """implementation vs model on every case; records tie violations."""
    for c, i, (m, _s) in zip(cases, impl, model):
        if m in skip:
            chk.count("model:unmodelled")
            continue
        chk.disagreements_checked += 1
        if i != m:
            chk.report_tie(f"{component}: implementation and Lean model disagree",
                           {"component": component, "case": case_line(c), "implementation": i, "model": m})
