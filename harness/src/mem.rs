//! Peak live heap measurement (C17): a counting global allocator, a synthetic reader that
//! generates `pat` repeated `count` times followed by `tail` without holding it in memory, and a
//! sink writer.  `harness mem key=value...` prints `peak=<bytes> status=<ok|fail> out=<bytes written>`.
use std::alloc::{GlobalAlloc, Layout, System};
use std::io::{self, Read, Write};
use std::sync::atomic::{AtomicUsize, Ordering};

pub struct Counting;

static LIVE: AtomicUsize = AtomicUsize::new(0);
static PEAK: AtomicUsize = AtomicUsize::new(0);

unsafe impl GlobalAlloc for Counting {
    unsafe fn alloc(&self, l: Layout) -> *mut u8 {
        let p = System.alloc(l);
        if !p.is_null() {
            let live = LIVE.fetch_add(l.size(), Ordering::Relaxed) + l.size();
            PEAK.fetch_max(live, Ordering::Relaxed);
        }
        p
    }
    unsafe fn dealloc(&self, p: *mut u8, l: Layout) {
        LIVE.fetch_sub(l.size(), Ordering::Relaxed);
        System.dealloc(p, l)
    }
    unsafe fn realloc(&self, p: *mut u8, l: Layout, new_size: usize) -> *mut u8 {
        let q = System.realloc(p, l, new_size);
        if !q.is_null() {
            if new_size >= l.size() {
                let live = LIVE.fetch_add(new_size - l.size(), Ordering::Relaxed) + (new_size - l.size());
                PEAK.fetch_max(live, Ordering::Relaxed);
            } else {
                LIVE.fetch_sub(l.size() - new_size, Ordering::Relaxed);
            }
        }
        q
    }
}

pub fn reset_peak() -> usize {
    let live = LIVE.load(Ordering::Relaxed);
    PEAK.store(live, Ordering::Relaxed);
    live
}

pub fn peak() -> usize {
    PEAK.load(Ordering::Relaxed)
}

struct Synth {
    pat: Vec<u8>,
    count: u64,
    tail: Vec<u8>,
    rep: u64,
    off: usize,
    tail_off: usize,
}

impl Read for Synth {
    fn read(&mut self, buf: &mut [u8]) -> io::Result<usize> {
        let mut n = 0;
        while n < buf.len() {
            if self.rep < self.count && !self.pat.is_empty() {
                let avail = &self.pat[self.off..];
                let k = avail.len().min(buf.len() - n);
                buf[n..n + k].copy_from_slice(&avail[..k]);
                n += k;
                self.off += k;
                if self.off == self.pat.len() {
                    self.off = 0;
                    self.rep += 1;
                }
            } else if self.tail_off < self.tail.len() {
                let avail = &self.tail[self.tail_off..];
                let k = avail.len().min(buf.len() - n);
                buf[n..n + k].copy_from_slice(&avail[..k]);
                n += k;
                self.tail_off += k;
            } else {
                break;
            }
        }
        Ok(n)
    }
}

struct Sink(u64);
impl Write for Sink {
    fn write(&mut self, b: &[u8]) -> io::Result<usize> {
        self.0 += b.len() as u64;
        Ok(b.len())
    }
    fn flush(&mut self) -> io::Result<()> {
        Ok(())
    }
}

pub fn cmd_mem(args: &[String]) {
    use std::collections::HashMap;
    use std::convert::TryFrom;
    let mut kv: HashMap<&str, &str> = HashMap::new();
    for a in args {
        if let Some((k, v)) = a.split_once('=') {
            kv.insert(k, v);
        }
    }
    let opt = match crate::build_opt(&kv) {
        crate::Built::Ok(o) => o,
        crate::Built::Bad(e) => {
            println!("bad {}", e);
            return;
        }
    };
    let synth = Synth {
        pat: crate::unhex(kv.get("pat").copied().unwrap_or("")),
        count: kv.get("count").and_then(|v| v.parse().ok()).unwrap_or(0),
        tail: crate::unhex(kv.get("tail").copied().unwrap_or("")),
        rep: 0,
        off: 0,
        tail_off: 0,
    };
    let base = reset_peak();
    // the same buffering `main` sets up
    let mut stdin = std::io::BufReader::with_capacity(64 * 1024, synth);
    let mut stdout = std::io::BufWriter::with_capacity(64 * 1024, Sink(0));
    let res: Result<(), String> = if crate::flag(&kv, "M") {
        match tuc::stream::StreamOpt::try_from(&opt) {
            Ok(so) => tuc::stream::read_and_cut_bytes_stream(&mut stdin, &mut stdout, &so)
                .map_err(|e| e.to_string()),
            Err(e) => Err(e.to_string()),
        }
    } else if opt.bounds_type == tuc::bounds::BoundsType::Bytes {
        tuc::cut_bytes::read_and_cut_bytes(&mut stdin, &mut stdout, &opt).map_err(|e| e.to_string())
    } else if opt.bounds_type == tuc::bounds::BoundsType::Lines {
        tuc::cut_lines::read_and_cut_lines(&mut stdin, &mut stdout, &opt).map_err(|e| e.to_string())
    } else if let Ok(fo) = tuc::fast_lane::FastOpt::try_from(&opt) {
        tuc::fast_lane::read_and_cut_text_as_bytes(&mut stdin, &mut stdout, &fo)
            .map_err(|e| e.to_string())
    } else {
        tuc::cut_str::read_and_cut_str(&mut stdin, &mut stdout, opt).map_err(|e| e.to_string())
    };
    let _ = stdout.flush();
    let pk = peak().saturating_sub(base);
    let written = stdout.get_ref().0;
    println!(
        "peak={} status={} out={}",
        pk,
        if res.is_ok() { "ok" } else { "fail" },
        written
    );
}
