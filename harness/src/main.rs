//! Correspondence harness: runs the real `tuc` library entry points in-process on the cases it
//! reads from stdin (one per line, `kind key=value ...`, byte strings hex-encoded) and prints one
//! result line per case, in the same format as the Lean driver (`/verif/lean/Driver.lean`).
//!
//! Sub-commands:
//!   harness run            cases on stdin -> results on stdout
//!   harness cli <tuc-bin>  cases `cli a=<hex>,<hex>.. in=<hex>` -> `<exit> <hex stdout>` (spawns the binary)
//!   harness mem ...        peak-heap measurements (see mem.rs)
mod mem;

use std::collections::HashMap;
use std::convert::TryFrom;
use std::io::{self, BufRead, Read, Write};
use std::panic::{catch_unwind, AssertUnwindSafe};
use std::str::FromStr;
use std::sync::atomic::{AtomicU64, Ordering};
use std::sync::Arc;

use tuc::bounds::{BoundOrFiller, BoundsType, Side, UserBounds, UserBoundsList, UserBoundsTrait};
use tuc::cut_bytes::read_and_cut_bytes;
use tuc::cut_lines::read_and_cut_lines;
use tuc::cut_str::{cut_str, read_and_cut_str};
use tuc::fast_lane::{read_and_cut_text_as_bytes, FastOpt};
use tuc::options::{Opt, RegexBag, Trim, EOL};
use tuc::stream::{read_and_cut_bytes_stream, StreamOpt};

#[global_allocator]
static ALLOC: mem::Counting = mem::Counting;

// ---------------------------------------------------------------------------------------------
// hex helpers

pub fn unhex(s: &str) -> Vec<u8> {
    let b = s.as_bytes();
    let mut out = Vec::with_capacity(b.len() / 2);
    let v = |c: u8| -> u8 {
        match c {
            b'0'..=b'9' => c - b'0',
            b'a'..=b'f' => c - b'a' + 10,
            b'A'..=b'F' => c - b'A' + 10,
            _ => 0,
        }
    };
    let mut i = 0;
    while i + 1 < b.len() {
        out.push(v(b[i]) * 16 + v(b[i + 1]));
        i += 2;
    }
    out
}

pub fn hex(b: &[u8]) -> String {
    const D: &[u8; 16] = b"0123456789abcdef";
    let mut s = String::with_capacity(b.len() * 2);
    for x in b {
        s.push(D[(x >> 4) as usize] as char);
        s.push(D[(x & 15) as usize] as char);
    }
    s
}

// ---------------------------------------------------------------------------------------------
// I/O doubles

/// A `BufRead` that serves `data` in a prescribed segmentation (successive `fill_buf` results),
/// refilling only when the current segment has been consumed entirely (as `BufReader` does), and
/// that starts returning an error once `fail_at` bytes have been served.
pub struct SegReader {
    data: Vec<u8>,
    segs: Vec<usize>,
    seg_idx: usize,
    pos: usize,
    seg_end: usize,
    fail_at: Option<usize>,
    /// start again from the first segment length when the list is exhausted (large inputs)
    pub cycle: bool,
    /// the OS error the read fault is reported with (EIO, EISDIR …); default: a custom `ErrorKind::Other`
    pub errno: Option<i32>,
}

impl SegReader {
    pub fn new(data: Vec<u8>, segs: Vec<usize>, fail_at: Option<usize>) -> Self {
        SegReader {
            data,
            segs,
            seg_idx: 0,
            pos: 0,
            seg_end: 0,
            fail_at,
            cycle: false,
            errno: None,
        }
    }
}

impl Read for SegReader {
    fn read(&mut self, buf: &mut [u8]) -> io::Result<usize> {
        let avail = self.fill_buf()?;
        let n = avail.len().min(buf.len());
        buf[..n].copy_from_slice(&avail[..n]);
        self.consume(n);
        Ok(n)
    }
}

impl BufRead for SegReader {
    fn fill_buf(&mut self) -> io::Result<&[u8]> {
        let limit = self.fail_at.unwrap_or(self.data.len()).min(self.data.len());
        if self.pos >= self.seg_end {
            // refill
            if self.pos >= limit {
                if self.fail_at.is_some() {
                    return Err(match self.errno {
                        Some(e) => io::Error::from_raw_os_error(e),
                        None => io::Error::new(io::ErrorKind::Other, "injected read fault"),
                    });
                }
                return Ok(&[]);
            }
            if self.cycle && !self.segs.is_empty() && self.seg_idx >= self.segs.len() {
                self.seg_idx = 0;
            }
            let len = if self.seg_idx < self.segs.len() {
                let l = self.segs[self.seg_idx];
                self.seg_idx += 1;
                l.max(1)
            } else {
                self.data.len() - self.pos
            };
            self.seg_end = (self.pos + len).min(limit);
        }
        Ok(&self.data[self.pos..self.seg_end])
    }

    fn consume(&mut self, amt: usize) {
        self.pos = (self.pos + amt).min(self.seg_end);
    }
}

/// A `Write` that accepts `limit` bytes in total and then fails.
pub struct FaultWriter {
    pub buf: Vec<u8>,
    pub limit: Option<usize>,
    /// accept at most this many bytes per `write` call (short writes)
    pub short: Option<usize>,
    /// the OS error the fault is reported with (EPIPE, ENOSPC, EIO, EFBIG …); default: a custom `ErrorKind::Other`
    pub errno: Option<i32>,
}

impl Write for FaultWriter {
    fn write(&mut self, b: &[u8]) -> io::Result<usize> {
        let b = match self.short {
            Some(n) if b.len() > n.max(1) => &b[..n.max(1)],
            _ => b,
        };
        match self.limit {
            None => {
                self.buf.extend_from_slice(b);
                Ok(b.len())
            }
            Some(k) => {
                let avail = k.saturating_sub(self.buf.len());
                if avail == 0 && !b.is_empty() {
                    return Err(match self.errno {
                        Some(e) => io::Error::from_raw_os_error(e),
                        None => io::Error::new(io::ErrorKind::Other, "injected write fault"),
                    });
                }
                let n = avail.min(b.len());
                self.buf.extend_from_slice(&b[..n]);
                Ok(n)
            }
        }
    }
    fn flush(&mut self) -> io::Result<()> {
        Ok(())
    }
}

// ---------------------------------------------------------------------------------------------
// rendering of bounds

fn side_str(s: &Side) -> String {
    match s {
        Side::Some(v) => v.to_string(),
        Side::Continue => "_".to_string(),
    }
}

fn parse_side(s: &str) -> Side {
    if s == "_" {
        Side::Continue
    } else {
        Side::Some(s.parse::<i32>().unwrap())
    }
}

fn render_ub(b: &UserBounds) -> String {
    format!(
        "B({},{},{},{})",
        side_str(&b.l),
        side_str(&b.r),
        if b.is_last { 1 } else { 0 },
        match &b.fallback_oob {
            Some(f) => format!("={}", hex(f)),
            None => "-".to_string(),
        }
    )
}

fn render_list(l: &[BoundOrFiller]) -> String {
    l.iter()
        .map(|bof| match bof {
            BoundOrFiller::Bound(b) => render_ub(b),
            BoundOrFiller::Filler(f) => format!("F({})", hex(f)),
        })
        .collect::<Vec<_>>()
        .join(";")
}

fn render_ubl(l: &UserBoundsList) -> String {
    format!("L={}|{}", side_str(&l.last_interesting_field), render_list(&l.list))
}

/// structured bounds: `B(l,r,=hex|-)` / `F(hex)` separated by `;`
fn parse_structured(s: &str) -> Vec<BoundOrFiller> {
    let mut v = Vec::new();
    for item in s.split(';') {
        if item.is_empty() {
            continue;
        }
        if let Some(body) = item.strip_prefix("F(") {
            v.push(BoundOrFiller::Filler(unhex(body.trim_end_matches(')'))));
        } else if let Some(body) = item.strip_prefix("B(") {
            let body = body.trim_end_matches(')');
            let parts: Vec<&str> = body.split(',').collect();
            let fb = if parts.len() > 2 && parts[2].starts_with('=') {
                Some(unhex(&parts[2][1..]))
            } else {
                None
            };
            v.push(BoundOrFiller::Bound(UserBounds::with_fallback(
                parse_side(parts[0]),
                parse_side(parts[1]),
                fb,
            )));
        }
    }
    v
}

// ---------------------------------------------------------------------------------------------
// cases

type Kv<'a> = HashMap<&'a str, &'a str>;

pub fn flag(kv: &Kv, k: &str) -> bool {
    kv.get(k).map(|v| *v == "1").unwrap_or(false)
}

fn opt_bytes(kv: &Kv, k: &str) -> Option<Vec<u8>> {
    match kv.get(k) {
        None => None,
        Some(v) if *v == "-" => None,
        Some(v) => Some(unhex(v)),
    }
}

fn opt_usize(kv: &Kv, k: &str) -> Option<usize> {
    match kv.get(k) {
        None => None,
        Some(v) if *v == "-" => None,
        Some(v) => v.parse::<usize>().ok(),
    }
}

pub enum Built {
    Ok(Opt),
    Bad(&'static str),
}

fn build_bounds(kv: &Kv) -> Result<UserBoundsList, &'static str> {
    if let Some(bv) = kv.get("bv") {
        let v = parse_structured(bv);
        match catch_unwind(AssertUnwindSafe(|| UserBoundsList::from(v))) {
            Ok(l) => Ok(l),
            Err(_) => Err("panic"),
        }
    } else {
        let text = String::from_utf8(unhex(kv.get("b").copied().unwrap_or("313a"))).map_err(|_| "badcase")?;
        match catch_unwind(AssertUnwindSafe(|| UserBoundsList::from_str(&text))) {
            Ok(Ok(l)) => Ok(l),
            Ok(Err(_)) => Err("badbounds"),
            Err(_) => Err("panic"),
        }
    }
}

pub fn build_opt(kv: &Kv) -> Built {
    let bounds = match build_bounds(kv) {
        Ok(b) => b,
        Err(e) => return Built::Bad(e),
    };
    let bounds_type = match kv.get("bt").copied().unwrap_or("f") {
        "c" => BoundsType::Characters,
        "b" => BoundsType::Bytes,
        "l" => BoundsType::Lines,
        _ => BoundsType::Fields,
    };
    let regex_text: Option<String> = if bounds_type == BoundsType::Characters {
        Some("\\b|\\B".to_owned())
    } else {
        opt_bytes(kv, "re").map(|b| String::from_utf8_lossy(&b).into_owned())
    };
    let regex_bag = match regex_text {
        None => None,
        Some(t) => {
            let normal = regex::bytes::Regex::new(&t);
            let greedy = regex::bytes::Regex::new(&format!("({})+", &t));
            match (normal, greedy) {
                (Ok(normal), Ok(greedy)) => Some(RegexBag { normal, greedy }),
                _ => return Built::Bad("badregex"),
            }
        }
    };
    let trim = match kv.get("t").copied().unwrap_or("-") {
        "l" => Some(Trim::Left),
        "r" => Some(Trim::Right),
        "b" => Some(Trim::Both),
        _ => None,
    };
    Built::Ok(Opt {
        delimiter: opt_bytes(kv, "d").unwrap_or_else(|| b"\t".to_vec()),
        eol: if flag(kv, "z") { EOL::Zero } else { EOL::Newline },
        bounds,
        bounds_type,
        only_delimited: flag(kv, "s"),
        greedy_delimiter: flag(kv, "g"),
        compress_delimiter: flag(kv, "p"),
        replace_delimiter: opt_bytes(kv, "r"),
        trim,
        version: false,
        complement: flag(kv, "m"),
        join: flag(kv, "j"),
        json: flag(kv, "json"),
        fixed_memory: None,
        fallback_oob: opt_bytes(kv, "fb"),
        regex_bag,
    })
}

fn parse_segs(kv: &Kv) -> Vec<usize> {
    match kv.get("seg") {
        None => Vec::new(),
        Some(v) if v.is_empty() || *v == "-" => Vec::new(),
        Some(v) => v.split(',').filter_map(|x| x.parse::<usize>().ok()).collect(),
    }
}

fn parse_ranges(s: &str) -> Vec<std::ops::Range<usize>> {
    s.split(',')
        .filter(|x| !x.is_empty() && *x != "-")
        .filter_map(|x| {
            let mut it = x.split(':');
            let a = it.next()?.parse::<usize>().ok()?;
            let b = it.next()?.parse::<usize>().ok()?;
            Some(a..b)
        })
        .collect()
}

fn run_cut(kv: &Kv) -> String {
    let opt = match build_opt(kv) {
        Built::Ok(o) => o,
        Built::Bad(e) => return e.to_string(),
    };
    let input = opt_bytes(kv, "in").unwrap_or_default();
    let mut reader = SegReader::new(input.clone(), parse_segs(kv), opt_usize(kv, "rf"));
    reader.cycle = kv.get("cyc").is_some();
    reader.errno = kv.get("rfe").and_then(|v| v.parse().ok());
    let mut writer = FaultWriter {
        buf: Vec::new(),
        limit: opt_usize(kv, "wf"),
        short: opt_usize(kv, "sw"),
        errno: kv.get("wfe").and_then(|v| v.parse().ok()),
    };
    let eng = kv.get("eng").copied().unwrap_or("str");
    let res = catch_unwind(AssertUnwindSafe(|| -> Result<Result<(), String>, &'static str> {
        match eng {
            "str" => Ok(read_and_cut_str(&mut reader, &mut writer, opt).map_err(|e| e.to_string())),
            "fast" => match FastOpt::try_from(&opt) {
                Ok(fo) => Ok(read_and_cut_text_as_bytes(&mut reader, &mut writer, &fo)
                    .map_err(|e| e.to_string())),
                Err(_) => Err("inapplicable"),
            },
            "stream" => match StreamOpt::try_from(&opt) {
                Ok(so) => Ok(read_and_cut_bytes_stream(&mut reader, &mut writer, &so)
                    .map_err(|e| e.to_string())),
                Err(_) => Err("inapplicable"),
            },
            "lines" => Ok(read_and_cut_lines(&mut reader, &mut writer, &opt).map_err(|e| e.to_string())),
            "bytes" => Ok(read_and_cut_bytes(&mut reader, &mut writer, &opt).map_err(|e| e.to_string())),
            "cutstr" => {
                let mut fields = parse_ranges(kv.get("sf").copied().unwrap_or(""));
                let mut buf = opt_bytes(kv, "sb").unwrap_or_default();
                let eol = [opt.eol as u8];
                Ok(cut_str(&input, &opt, &mut writer, &mut fields, &mut buf, &eol)
                    .map_err(|e| e.to_string()))
            }
            // what `main` does once the options are parsed (without the final flush)
            "auto" => {
                if flag(kv, "M") {
                    match StreamOpt::try_from(&opt) {
                        Ok(so) => Ok(read_and_cut_bytes_stream(&mut reader, &mut writer, &so)
                            .map_err(|e| e.to_string())),
                        Err(_) => Err("reject"),
                    }
                } else if opt.bounds_type == BoundsType::Bytes {
                    Ok(read_and_cut_bytes(&mut reader, &mut writer, &opt).map_err(|e| e.to_string()))
                } else if opt.bounds_type == BoundsType::Lines {
                    Ok(read_and_cut_lines(&mut reader, &mut writer, &opt).map_err(|e| e.to_string()))
                } else if let Ok(fo) = FastOpt::try_from(&opt) {
                    Ok(read_and_cut_text_as_bytes(&mut reader, &mut writer, &fo)
                        .map_err(|e| e.to_string()))
                } else {
                    Ok(read_and_cut_str(&mut reader, &mut writer, opt).map_err(|e| e.to_string()))
                }
            }
            _ => Err("badcase"),
        }
    }));
    match res {
        Ok(Ok(Ok(()))) => format!("ok {}", hex(&writer.buf)),
        Ok(Ok(Err(_))) => format!("fail {}", hex(&writer.buf)),
        Ok(Err(e)) => e.to_string(),
        Err(_) => format!("panic {}", hex(&writer.buf)),
    }
}

fn ub_from_kv(kv: &Kv) -> UserBounds {
    UserBounds::with_fallback(
        parse_side(kv.get("l").copied().unwrap_or("_")),
        parse_side(kv.get("r").copied().unwrap_or("_")),
        opt_bytes(kv, "fb"),
    )
}

fn run_case(line: &str) -> String {
    let mut it = line.split_whitespace();
    let kind = match it.next() {
        Some(k) => k,
        None => return "badcase".to_string(),
    };
    let mut kv: Kv = HashMap::new();
    for tok in it {
        if let Some((k, v)) = tok.split_once('=') {
            kv.insert(k, v);
        }
    }
    match kind {
        "parse" => {
            let text = match String::from_utf8(unhex(kv.get("s").copied().unwrap_or(""))) {
                Ok(t) => t,
                Err(_) => return "badcase".to_string(),
            };
            match catch_unwind(AssertUnwindSafe(|| UserBoundsList::from_str(&text))) {
                Ok(Ok(l)) => format!(
                    "ok {} fwd={}",
                    render_ubl(&l),
                    if l.is_forward_only() { 1 } else { 0 }
                ),
                Ok(Err(_)) => "fail".to_string(),
                Err(_) => "panic".to_string(),
            }
        }
        "range" => {
            let b = ub_from_kv(&kv);
            let n = opt_usize(&kv, "n").unwrap_or(0);
            match catch_unwind(AssertUnwindSafe(|| b.try_into_range(n))) {
                Ok(Ok(r)) => format!("ok {} {}", r.start, r.end),
                Ok(Err(_)) => "fail".to_string(),
                Err(_) => "panic".to_string(),
            }
        }
        "matches" => {
            let b = ub_from_kv(&kv);
            let idx = kv.get("idx").and_then(|v| v.parse::<i32>().ok()).unwrap_or(1);
            match catch_unwind(AssertUnwindSafe(|| b.matches(idx))) {
                Ok(Ok(r)) => format!("ok {}", if r { 1 } else { 0 }),
                Ok(Err(_)) => "fail".to_string(),
                Err(_) => "panic".to_string(),
            }
        }
        "unpack" => {
            let b = ub_from_kv(&kv);
            let n = opt_usize(&kv, "n").unwrap_or(0);
            match catch_unwind(AssertUnwindSafe(|| b.unpack(n))) {
                Ok(v) => format!(
                    "ok {}",
                    v.iter().map(render_ub).collect::<Vec<_>>().join(";")
                ),
                Err(_) => "panic".to_string(),
            }
        }
        "complement" => {
            let b = ub_from_kv(&kv);
            let n = opt_usize(&kv, "n").unwrap_or(0);
            match catch_unwind(AssertUnwindSafe(|| b.complement(n))) {
                Ok(Ok(v)) => format!(
                    "ok {}",
                    v.iter().map(render_ub).collect::<Vec<_>>().join(";")
                ),
                Ok(Err(_)) => "fail".to_string(),
                Err(_) => "panic".to_string(),
            }
        }
        "lunpack" | "lcomplement" => {
            let l = match build_bounds(&kv) {
                Ok(l) => l,
                Err(e) => return e.to_string(),
            };
            let n = opt_usize(&kv, "n").unwrap_or(0);
            match catch_unwind(AssertUnwindSafe(|| {
                if kind == "lunpack" {
                    Ok(l.unpack(n))
                } else {
                    l.complement(n)
                }
            })) {
                Ok(Ok(r)) => format!("ok {}", render_ubl(&r)),
                Ok(Err(_)) => "fail".to_string(),
                Err(_) => "panic".to_string(),
            }
        }
        "cut" => run_cut(&kv),
        // match positions of the real regex engine, for RE and (RE)+
        "rematch" => {
            let t = String::from_utf8_lossy(&opt_bytes(&kv, "re").unwrap_or_default()).into_owned();
            let input = opt_bytes(&kv, "in").unwrap_or_default();
            match (
                regex::bytes::Regex::new(&t),
                regex::bytes::Regex::new(&format!("({})+", &t)),
            ) {
                (Ok(n), Ok(g)) => {
                    let f = |r: &regex::bytes::Regex| {
                        r.find_iter(&input)
                            .map(|m| format!("{}:{}", m.start(), m.end()))
                            .collect::<Vec<_>>()
                            .join(",")
                    };
                    format!("ok n={} g={}", f(&n), f(&g))
                }
                _ => "badregex".to_string(),
            }
        }
        _ => "badcase".to_string(),
    }
}

fn cmd_run() {
    // watchdog: a case that runs for more than HANG_SECS is reported as `hang` and the process
    // exits with status 3; the caller restarts the harness on the remaining cases.
    let started = Arc::new(AtomicU64::new(0)); // 0 = idle, else millis since start + 1
    let t0 = std::time::Instant::now();
    {
        let started = started.clone();
        std::thread::spawn(move || loop {
            std::thread::sleep(std::time::Duration::from_millis(200));
            let s = started.load(Ordering::SeqCst);
            if s != 0 {
                let now = t0.elapsed().as_millis() as u64 + 1;
                if now > s + 8000 {
                    let out = io::stdout();
                    let mut out = out.lock();
                    let _ = writeln!(out, "hang");
                    let _ = out.flush();
                    std::process::exit(3);
                }
            }
        });
    }
    std::panic::set_hook(Box::new(|_| {}));
    let stdin = io::stdin();
    let stdout = io::stdout();
    for line in stdin.lock().lines() {
        let line = match line {
            Ok(l) => l,
            Err(_) => break,
        };
        started.store(t0.elapsed().as_millis() as u64 + 1, Ordering::SeqCst);
        let r = run_case(&line);
        started.store(0, Ordering::SeqCst);
        let mut out = stdout.lock();
        let _ = writeln!(out, "{}", r);
    }
}

/// `harness cli <bin> [threads]`: every stdin line is `a=<hex>,<hex>,... in=<hex> [lim=<k>]`;
/// runs `<bin> args...` with that stdin and prints `<exit|sigN|timeout> <hex stdout>`.
#[repr(C)]
struct RLimit {
    cur: u64,
    max: u64,
}
extern "C" {
    fn setrlimit(resource: i32, rlim: *const RLimit) -> i32;
}
const RLIMIT_AS: i32 = 9; // Linux

fn cmd_cli(bin: &str, threads: usize, as_limit: Option<u64>) {
    use std::process::{Command, Stdio};
    use std::sync::Mutex;
    let stdin = io::stdin();
    let lines: Vec<String> = stdin.lock().lines().map_while(Result::ok).collect();
    let n = lines.len();
    let results: Arc<Mutex<Vec<String>>> = Arc::new(Mutex::new(vec![String::new(); n]));
    let next = Arc::new(AtomicU64::new(0));
    let lines = Arc::new(lines);
    let mut hs = Vec::new();
    for _ in 0..threads {
        let lines = lines.clone();
        let results = results.clone();
        let next = next.clone();
        let bin = bin.to_string();
        hs.push(std::thread::spawn(move || loop {
            let i = next.fetch_add(1, Ordering::SeqCst) as usize;
            if i >= lines.len() {
                break;
            }
            let mut args: Vec<Vec<u8>> = Vec::new();
            let mut input: Vec<u8> = Vec::new();
            let mut stdin_file_offset: Option<usize> = None;
            for tok in lines[i].split_whitespace() {
                if let Some(v) = tok.strip_prefix("a=") {
                    args = v.split(',').map(unhex).collect();
                    if v.is_empty() {
                        args.clear();
                    }
                } else if let Some(v) = tok.strip_prefix("in=") {
                    input = unhex(v);
                } else if let Some(v) = tok.strip_prefix("sf=") {
                    // stdin is a regular file; the value is the offset the descriptor is positioned at (junk before it)
                    stdin_file_offset = v.parse::<usize>().ok();
                }
            }
            use std::os::unix::ffi::OsStringExt;
            let mut cmd = Command::new(&bin);
            for a in args {
                cmd.arg(std::ffi::OsString::from_vec(a));
            }
            if let Some(lim) = as_limit {
                // the address-space limit applies to the child only (set between fork and exec), never to this spawner
                use std::os::unix::process::CommandExt;
                unsafe {
                    cmd.pre_exec(move || {
                        let r = RLimit { cur: lim, max: lim };
                        setrlimit(RLIMIT_AS, &r);
                        Ok(())
                    });
                }
            }
            let mut tmp_path: Option<std::path::PathBuf> = None;
            let stdin_cfg = match stdin_file_offset {
                None => Stdio::piped(),
                Some(off) => {
                    use std::io::{Seek, SeekFrom};
                    let dir = std::env::var("VERIF_TMP").map(std::path::PathBuf::from).unwrap_or_else(|_| std::env::temp_dir());
                    let _ = std::fs::create_dir_all(&dir);
                    let path = dir.join(format!("stdin-{}-{}", std::process::id(), i));
                    let made = (|| -> io::Result<std::fs::File> {
                        let mut f = std::fs::OpenOptions::new().read(true).write(true).create(true).truncate(true).open(&path)?;
                        f.write_all(&vec![b'#'; off])?;
                        f.write_all(&input)?;
                        f.seek(SeekFrom::Start(off as u64))?;
                        Ok(f)
                    })();
                    tmp_path = Some(path);
                    match made {
                        Ok(f) => {
                            input.clear();
                            Stdio::from(f)
                        }
                        Err(_) => Stdio::piped(),
                    }
                }
            };
            cmd.env("RUST_BACKTRACE", "0")
                .stdin(stdin_cfg)
                .stdout(Stdio::piped())
                .stderr(Stdio::null());
            let r = match cmd.spawn() {
                Err(_) => "spawnerr".to_string(),
                Ok(mut child) => {
                    // stdin is fed from its own thread: a child that blocks on a full stdout pipe while we still write its stdin must not
                    // deadlock the spawner (the reader below drains stdout concurrently)
                    let writer = child.stdin.take().map(|mut si| {
                        let data = std::mem::take(&mut input);
                        std::thread::spawn(move || {
                            let _ = si.write_all(&data);
                        })
                    });
                    // wait with a timeout
                    let t0 = std::time::Instant::now();
                    let mut out = Vec::new();
                    let mut so = child.stdout.take().unwrap();
                    let reader = std::thread::spawn(move || {
                        let mut v = Vec::new();
                        let _ = so.read_to_end(&mut v);
                        v
                    });
                    let status;
                    loop {
                        match child.try_wait() {
                            Ok(Some(s)) => {
                                status = Some(s);
                                break;
                            }
                            Ok(None) => {
                                if t0.elapsed().as_secs() >= 10 {
                                    let _ = child.kill();
                                    let _ = child.wait();
                                    status = None;
                                    break;
                                }
                                std::thread::sleep(std::time::Duration::from_micros(300));
                            }
                            Err(_) => {
                                status = None;
                                break;
                            }
                        }
                    }
                    if let Some(w) = writer {
                        let _ = w.join();
                    }
                    if let Ok(v) = reader.join() {
                        out = v;
                    }
                    use std::os::unix::process::ExitStatusExt;
                    let st = match status {
                        None => "timeout".to_string(),
                        Some(s) => match (s.code(), s.signal()) {
                            (Some(c), _) => c.to_string(),
                            (None, Some(sig)) => format!("sig{}", sig),
                            _ => "unknown".to_string(),
                        },
                    };
                    format!("{} {}", st, hex(&out))
                }
            };
            if let Some(p) = tmp_path {
                let _ = std::fs::remove_file(p);
            }
            results.lock().unwrap()[i] = r;
        }));
    }
    for h in hs {
        let _ = h.join();
    }
    let out = io::stdout();
    let mut out = io::BufWriter::new(out.lock());
    for r in results.lock().unwrap().iter() {
        let _ = writeln!(out, "{}", r);
    }
}

fn main() {
    let args: Vec<String> = std::env::args().collect();
    match args.get(1).map(|s| s.as_str()) {
        Some("run") => cmd_run(),
        Some("cli") => cmd_cli(
            &args[2],
            args.get(3).and_then(|s| s.parse().ok()).unwrap_or(16),
            args.get(4).and_then(|s| s.parse().ok()),
        ),
        Some("mem") => mem::cmd_mem(&args[2..]),
        _ => {
            eprintln!("usage: harness run | cli <bin> [threads [address-space limit of each child, bytes]] | mem ...");
            std::process::exit(2);
        }
    }
}
